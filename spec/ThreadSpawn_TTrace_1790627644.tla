---- MODULE ThreadSpawn_TTrace_1790627644 ----
EXTENDS Sequences, TLCExt, ThreadSpawn, Toolbox, Naturals, TLC

_expression ==
    LET ThreadSpawn_TEExpression == INSTANCE ThreadSpawn_TEExpression
    IN ThreadSpawn_TEExpression!expression
----

_trace ==
    LET ThreadSpawn_TETrace == INSTANCE ThreadSpawn_TETrace
    IN ThreadSpawn_TETrace!trace
----

_inv ==
    ~(
        TLCGet("level") = Len(_TETrace)
        /\
        pc = (<<"fetch", "create", "create", "fetch">>)
        /\
        tmp = (<<0, 1, 1, 0>>)
        /\
        ids = (<<0, 1, 1, 0>>)
        /\
        started = ({})
        /\
        counter = (2)
    )
----

_init ==
    /\ ids = _TETrace[1].ids
    /\ counter = _TETrace[1].counter
    /\ started = _TETrace[1].started
    /\ pc = _TETrace[1].pc
    /\ tmp = _TETrace[1].tmp
----

_next ==
    /\ \E i,j \in DOMAIN _TETrace:
        /\ \/ /\ j = i + 1
              /\ i = TLCGet("level")
        /\ ids  = _TETrace[i].ids
        /\ ids' = _TETrace[j].ids
        /\ counter  = _TETrace[i].counter
        /\ counter' = _TETrace[j].counter
        /\ started  = _TETrace[i].started
        /\ started' = _TETrace[j].started
        /\ pc  = _TETrace[i].pc
        /\ pc' = _TETrace[j].pc
        /\ tmp  = _TETrace[i].tmp
        /\ tmp' = _TETrace[j].tmp

\* Uncomment the ASSUME below to write the states of the error trace
\* to the given file in Json format. Note that you can pass any tuple
\* to `JsonSerialize`. For example, a sub-sequence of _TETrace.
    \* ASSUME
    \*     LET J == INSTANCE Json
    \*         IN J!JsonSerialize("ThreadSpawn_TTrace_1790627644.json", _TETrace)

=============================================================================

 Note that you can extract this module `ThreadSpawn_TEExpression`
  to a dedicated file to reuse `expression` (the module in the 
  dedicated `ThreadSpawn_TEExpression.tla` file takes precedence 
  over the module `ThreadSpawn_TEExpression` below).

---- MODULE ThreadSpawn_TEExpression ----
EXTENDS Sequences, TLCExt, ThreadSpawn, Toolbox, Naturals, TLC

expression == 
    [
        \* To hide variables of the `ThreadSpawn` spec from the error trace,
        \* remove the variables below.  The trace will be written in the order
        \* of the fields of this record.
        ids |-> ids
        ,counter |-> counter
        ,started |-> started
        ,pc |-> pc
        ,tmp |-> tmp
        
        \* Put additional constant-, state-, and action-level expressions here:
        \* ,_stateNumber |-> _TEPosition
        \* ,_idsUnchanged |-> ids = ids'
        
        \* Format the `ids` variable as Json value.
        \* ,_idsJson |->
        \*     LET J == INSTANCE Json
        \*     IN J!ToJson(ids)
        
        \* Lastly, you may build expressions over arbitrary sets of states by
        \* leveraging the _TETrace operator.  For example, this is how to
        \* count the number of times a spec variable changed up to the current
        \* state in the trace.
        \* ,_idsModCount |->
        \*     LET F[s \in DOMAIN _TETrace] ==
        \*         IF s = 1 THEN 0
        \*         ELSE IF _TETrace[s].ids # _TETrace[s-1].ids
        \*             THEN 1 + F[s-1] ELSE F[s-1]
        \*     IN F[_TEPosition - 1]
    ]

=============================================================================



Parsing and semantic processing can take forever if the trace below is long.
 In this case, it is advised to uncomment the module below to deserialize the
 trace from a generated binary file.

\*
\*---- MODULE ThreadSpawn_TETrace ----
\*EXTENDS IOUtils, ThreadSpawn, TLC
\*
\*trace == IODeserialize("ThreadSpawn_TTrace_1790627644.bin", TRUE)
\*
\*=============================================================================
\*

---- MODULE ThreadSpawn_TETrace ----
EXTENDS ThreadSpawn, TLC

trace == 
    <<
    ([pc |-> <<"fetch", "fetch", "fetch", "fetch">>,tmp |-> <<0, 0, 0, 0>>,ids |-> <<0, 0, 0, 0>>,started |-> {},counter |-> 1]),
    ([pc |-> <<"fetch", "write", "fetch", "fetch">>,tmp |-> <<0, 1, 0, 0>>,ids |-> <<0, 0, 0, 0>>,started |-> {},counter |-> 1]),
    ([pc |-> <<"fetch", "write", "write", "fetch">>,tmp |-> <<0, 1, 1, 0>>,ids |-> <<0, 0, 0, 0>>,started |-> {},counter |-> 1]),
    ([pc |-> <<"fetch", "create", "write", "fetch">>,tmp |-> <<0, 1, 1, 0>>,ids |-> <<0, 1, 0, 0>>,started |-> {},counter |-> 2]),
    ([pc |-> <<"fetch", "create", "create", "fetch">>,tmp |-> <<0, 1, 1, 0>>,ids |-> <<0, 1, 1, 0>>,started |-> {},counter |-> 2])
    >>
----


=============================================================================

---- CONFIG ThreadSpawn_TTrace_1790627644 ----
CONSTANTS
    Spawners = { 1 , 2 , 3 , 4 }
    Atomic = FALSE

INVARIANT
    _inv

CHECK_DEADLOCK
    \* CHECK_DEADLOCK off because of PROPERTY or INVARIANT above.
    FALSE

INIT
    _init

NEXT
    _next

CONSTANT
    _TETrace <- _trace

ALIAS
    _expression
=============================================================================
\* Generated on Mon Sep 28 20:34:05 UTC 2026