------------------------------- MODULE Atomics -------------------------------
(***************************************************************************)
(* Atomic memory instructions across threads (C16).                        *)
(*                                                                         *)
(* Abstract view: every load, store, read-modify-write and compare-        *)
(* exchange is ONE atomic step on the cell.  Implementation view, chosen   *)
(* by the constant Variant:                                                *)
(*   "LE"      - every operation is one hardware-atomic step               *)
(*   "BEMutex" - (big-endian configuration of w2c2_base.h) RMW, xchg and   *)
(*               cmpxchg are  lock; read; write; unlock  on the memory's   *)
(*               mutex, while atomic loads and stores stay lock-free       *)
(*   "BEMutexStoreLocked" - as BEMutex, but stores also take the mutex     *)
(* TLC checks that the implementation view refines the abstract one: the   *)
(* operation takes effect at its write step and must have computed its     *)
(* result from the value the cell holds at that moment.                    *)
(***************************************************************************)
EXTENDS Naturals, Integers, FiniteSets, Sequences, TLC
CONSTANTS Threads, Prog, Variant
\* Prog[t] = sequence of [op |-> "load"|"store"|"add"|"xchg"|"cmpxchg", v, e]
VARIABLES cell, mutex, pc, idx, tmp, res, bad
vars == <<cell, mutex, pc, idx, tmp, res, bad>>
Cur(t) == Prog[t][idx[t]]
Init == /\ cell = 0 /\ mutex = 0 /\ pc = [t \in Threads |-> "ready"] /\ idx = [t \in Threads |-> 1]
        /\ tmp = [t \in Threads |-> 0] /\ res = [t \in Threads |-> <<>>] /\ bad = FALSE
Done(t) == idx[t] > Len(Prog[t])
NewVal(o, old) == CASE o.op = "add" -> old + o.v [] o.op = "xchg" -> o.v [] o.op = "cmpxchg" -> (IF old = o.e THEN o.v ELSE old)
Finish(t, r) == /\ res' = [res EXCEPT ![t] = Append(@, r)] /\ idx' = [idx EXCEPT ![t] = @ + 1] /\ pc' = [pc EXCEPT ![t] = "ready"]
IsRmw(o) == o.op \in {"add", "xchg", "cmpxchg"}
Locked(o) == Variant # "LE" /\ (IsRmw(o) \/ (Variant = "BEMutexStoreLocked" /\ o.op = "store"))

\* one-step operations (all of LE; loads always; stores unless locked)
Atomic(t) == /\ ~Done(t) /\ pc[t] = "ready" /\ ~Locked(Cur(t))
             /\ LET o == Cur(t) IN
                CASE o.op = "load"  -> cell' = cell /\ Finish(t, cell)
                  [] o.op = "store" -> cell' = o.v /\ Finish(t, 0)
                  [] OTHER          -> cell' = NewVal(o, cell) /\ Finish(t, cell)
             /\ UNCHANGED <<mutex, tmp, bad>>
\* mutex-protected operations of the big-endian configuration
Lock(t)   == /\ ~Done(t) /\ pc[t] = "ready" /\ Locked(Cur(t)) /\ mutex = 0 /\ mutex' = t
             /\ pc' = [pc EXCEPT ![t] = "read"] /\ UNCHANGED <<cell, idx, tmp, res, bad>>
Read(t)   == /\ pc[t] = "read" /\ tmp' = [tmp EXCEPT ![t] = cell] /\ pc' = [pc EXCEPT ![t] = "write"]
             /\ UNCHANGED <<cell, mutex, idx, res, bad>>
\* the operation takes effect here: abstractly it reads the cell NOW; the code uses what it read earlier
Write(t)  == /\ pc[t] = "write"
             /\ LET o == Cur(t) IN
                /\ cell' = IF o.op = "store" THEN o.v ELSE NewVal(o, tmp[t])
                /\ bad' = (bad \/ (o.op # "store" /\ tmp[t] # cell))
             /\ pc' = [pc EXCEPT ![t] = "unlock"] /\ UNCHANGED <<mutex, idx, tmp, res>>
Unlock(t) == /\ pc[t] = "unlock" /\ mutex' = 0 /\ Finish(t, IF Cur(t).op = "store" THEN 0 ELSE tmp[t])
             /\ UNCHANGED <<cell, tmp, bad>>
Next == \E t \in Threads : Atomic(t) \/ Lock(t) \/ Read(t) \/ Write(t) \/ Unlock(t)
Spec == Init /\ [][Next]_vars
\* refinement condition: a read-modify-write never overwrites a value it has not seen
AtomicRMW == ~bad
\* consequence for counters: with only adds, the final value is the sum (no lost update)
AllDone == \A t \in Threads : Done(t)
RECURSIVE SumAdds(_, _)
SumAdds(s, i) == IF i > Len(s) THEN 0 ELSE (IF s[i].op = "add" THEN s[i].v ELSE 0) + SumAdds(s, i + 1)
=============================================================================
