----------------------------- MODULE WordCheck -----------------------------
(* Exhaustive self-check of Word.tla at a small width: every operator is     *)
(* compared with its definition over Nat/Int for ALL operand pairs.          *)
(* cfg: LB = 2, KW = 4  (8-bit words made of four 2-bit limbs).               *)
EXTENDS Word, TLC
CONSTANT KW
VARIABLES xa, xb
NN == 2 ^ (LB * KW)
WW == LB * KW
Init == xa \in 0..(NN - 1) /\ xb = 0
Next == xb < NN - 1 /\ xb' = xb + 1 /\ xa' = xa   \* successors are checked by the worker pool

wa == OfNat(xa, KW)
wb == OfNat(xb, KW)
S(x) == IF x >= NN \div 2 THEN x - NN ELSE x          \* signed reading
U(x) == (x + 2 * NN) % NN                             \* back to unsigned
AbsI(x) == IF x < 0 THEN -x ELSE x
TruncDiv(x, y) == LET q == AbsI(x) \div AbsI(y) IN IF (x < 0) # (y < 0) THEN -q ELSE q
TruncRem(x, y) == x - y * TruncDiv(x, y)
RECURSIVE BitsN(_, _)
BitsN(x, sk) == IF sk = 0 THEN <<>> ELSE <<x % 2>> \o BitsN(x \div 2, sk - 1)
RECURSIVE ValN(_)
ValN(bs) == IF bs = <<>> THEN 0 ELSE Head(bs) + 2 * ValN(Tail(bs))
bxa == BitsN(xa, WW)
bxb == BitsN(xb, WW)
sk == xb % WW
ClzRef == IF xa = 0 THEN WW ELSE CHOOSE n \in 0..(WW - 1) : xa * 2 ^ n < NN /\ xa * 2 ^ n >= NN \div 2
CtzRef == IF xa = 0 THEN WW ELSE CHOOSE n \in 0..(WW - 1) : xa % (2 ^ (n + 1)) = 2 ^ n
PopRef == ValN(<<>>) + Len(SelectSeq(bxa, LAMBDA x : x = 1))

RoundTrip == ToNat(wa) = xa /\ FromBits(Bits(wa)) = wa /\ ValN(Bits(wa)) = xa
Arith ==
    /\ ToNat(Add(wa, wb)) = (xa + xb) % NN
    /\ ToNat(Sub(wa, wb)) = (xa + NN - xb) % NN
    /\ ToNat(Mul(wa, wb)) = (xa * xb) % NN
    /\ ToNat(Neg(wa)) = (NN - xa) % NN
DivOK ==
    xb # 0 =>
      /\ ToNat(DivU(wa, wb)) = xa \div xb
      /\ ToNat(RemU(wa, wb)) = xa % xb
      /\ xa = xb * ToNat(DivU(wa, wb)) + ToNat(RemU(wa, wb)) /\ ToNat(RemU(wa, wb)) < xb
      /\ ToNat(DivS(wa, wb)) = U(TruncDiv(S(xa), S(xb)))
      /\ ToNat(RemS(wa, wb)) = U(TruncRem(S(xa), S(xb)))
      /\ (S(xa) = -(NN \div 2) /\ S(xb) = -1) => (ToNat(RemS(wa, wb)) = 0 /\ DivS(wa, wb) = MinS(KW))
CmpOK ==
    /\ LtU(wa, wb) = (xa < xb) /\ LeU(wa, wb) = (xa <= xb)
    /\ LtS(wa, wb) = (S(xa) < S(xb)) /\ LeS(wa, wb) = (S(xa) <= S(xb))
BitOK ==
    /\ Bits(WAnd(wa, wb)) = [i \in 1..WW |-> bxa[i] * bxb[i]]
    /\ Bits(WOr(wa, wb))  = [i \in 1..WW |-> IF bxa[i] + bxb[i] > 0 THEN 1 ELSE 0]
    /\ Bits(WXor(wa, wb)) = [i \in 1..WW |-> (bxa[i] + bxb[i]) % 2]
ShiftOK ==
    /\ ToNat(Shl(wa, wb))  = (xa * 2 ^ sk) % NN
    /\ ToNat(ShrU(wa, wb)) = xa \div (2 ^ sk)
    /\ ToNat(ShrS(wa, wb)) = U(IF S(xa) >= 0 THEN S(xa) \div (2 ^ sk) ELSE 0 - ((((0 - S(xa)) + 2 ^ sk) - 1) \div (2 ^ sk)))
    /\ ToNat(Rotl(wa, wb)) = ((xa * 2 ^ sk) % NN) + ((xa \div (2 ^ (WW - sk))) % NN)
    /\ ToNat(Rotr(wa, wb)) = (xa \div (2 ^ sk)) + ((xa * 2 ^ (WW - sk)) % NN)
    /\ Rotl(Rotr(wa, wb), wb) = wa
    /\ (sk = 0) => (Rotl(wa, wb) = wa /\ Rotr(wa, wb) = wa /\ Shl(wa, wb) = wa)
CountOK ==
    /\ ToNat(Clz(wa)) = ClzRef /\ ToNat(Ctz(wa)) = CtzRef /\ ToNat(Popcnt(wa)) = PopRef
    /\ ToNat(Popcnt(wa)) + ToNat(Popcnt(Cpl(wa))) = WW
ExtOK ==
    /\ Wrap(ExtendU(wa, 2 * KW), KW) = wa
    /\ ToNat(Wrap(ExtendS(wa, 2 * KW), KW)) = xa
    /\ ExtendLowS(ExtendLowS(wa, KW \div 2), KW \div 2) = ExtendLowS(wa, KW \div 2)
    /\ LET h == 2 ^ (WW \div 2) lo == xa % h
       IN ToNat(ExtendLowS(wa, KW \div 2)) = IF lo >= h \div 2 THEN NN - h + lo ELSE lo
    /\ SignBit(wa) = (IF xa >= NN \div 2 THEN 1 ELSE 0)
    /\ (ExtendS(wa, 2 * KW)[2 * KW] = IF xa >= NN \div 2 THEN Base - 1 ELSE 0)
=============================================================================
