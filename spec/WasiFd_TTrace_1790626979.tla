---- MODULE WasiFd_TTrace_1790626979 ----
EXTENDS Sequences, TLCExt, Toolbox, Naturals, TLC, WasiFd

_expression ==
    LET WasiFd_TEExpression == INSTANCE WasiFd_TEExpression
    IN WasiFd_TEExpression!expression
----

_trace ==
    LET WasiFd_TETrace == INSTANCE WasiFd_TETrace
    IN WasiFd_TETrace!trace
----

_inv ==
    ~(
        TLCGet("level") = Len(_TETrace)
        /\
        dfree = (TRUE)
        /\
        wrongerr = (TRUE)
        /\
        cells = (<<"freed">>)
        /\
        opens = (0)
        /\
        uses = (0)
        /\
        lastNew = (-1)
        /\
        uaf = (FALSE)
        /\
        table = (<<[fd |-> 0, dir |-> FALSE, cell |-> 0, kind |-> "std"], [fd |-> 1, dir |-> FALSE, cell |-> 0, kind |-> "std"], [fd |-> 2, dir |-> FALSE, cell |-> 0, kind |-> "std"], [fd |-> -1, dir |-> FALSE, cell |-> 1, kind |-> "closed"]>>)
        /\
        closes = (2)
    )
----

_init ==
    /\ lastNew = _TETrace[1].lastNew
    /\ table = _TETrace[1].table
    /\ cells = _TETrace[1].cells
    /\ uses = _TETrace[1].uses
    /\ opens = _TETrace[1].opens
    /\ closes = _TETrace[1].closes
    /\ dfree = _TETrace[1].dfree
    /\ wrongerr = _TETrace[1].wrongerr
    /\ uaf = _TETrace[1].uaf
----

_next ==
    /\ \E i,j \in DOMAIN _TETrace:
        /\ \/ /\ j = i + 1
              /\ i = TLCGet("level")
        /\ lastNew  = _TETrace[i].lastNew
        /\ lastNew' = _TETrace[j].lastNew
        /\ table  = _TETrace[i].table
        /\ table' = _TETrace[j].table
        /\ cells  = _TETrace[i].cells
        /\ cells' = _TETrace[j].cells
        /\ uses  = _TETrace[i].uses
        /\ uses' = _TETrace[j].uses
        /\ opens  = _TETrace[i].opens
        /\ opens' = _TETrace[j].opens
        /\ closes  = _TETrace[i].closes
        /\ closes' = _TETrace[j].closes
        /\ dfree  = _TETrace[i].dfree
        /\ dfree' = _TETrace[j].dfree
        /\ wrongerr  = _TETrace[i].wrongerr
        /\ wrongerr' = _TETrace[j].wrongerr
        /\ uaf  = _TETrace[i].uaf
        /\ uaf' = _TETrace[j].uaf

\* Uncomment the ASSUME below to write the states of the error trace
\* to the given file in Json format. Note that you can pass any tuple
\* to `JsonSerialize`. For example, a sub-sequence of _TETrace.
    \* ASSUME
    \*     LET J == INSTANCE Json
    \*         IN J!JsonSerialize("WasiFd_TTrace_1790626979.json", _TETrace)

=============================================================================

 Note that you can extract this module `WasiFd_TEExpression`
  to a dedicated file to reuse `expression` (the module in the 
  dedicated `WasiFd_TEExpression.tla` file takes precedence 
  over the module `WasiFd_TEExpression` below).

---- MODULE WasiFd_TEExpression ----
EXTENDS Sequences, TLCExt, Toolbox, Naturals, TLC, WasiFd

expression == 
    [
        \* To hide variables of the `WasiFd` spec from the error trace,
        \* remove the variables below.  The trace will be written in the order
        \* of the fields of this record.
        lastNew |-> lastNew
        ,table |-> table
        ,cells |-> cells
        ,uses |-> uses
        ,opens |-> opens
        ,closes |-> closes
        ,dfree |-> dfree
        ,wrongerr |-> wrongerr
        ,uaf |-> uaf
        
        \* Put additional constant-, state-, and action-level expressions here:
        \* ,_stateNumber |-> _TEPosition
        \* ,_lastNewUnchanged |-> lastNew = lastNew'
        
        \* Format the `lastNew` variable as Json value.
        \* ,_lastNewJson |->
        \*     LET J == INSTANCE Json
        \*     IN J!ToJson(lastNew)
        
        \* Lastly, you may build expressions over arbitrary sets of states by
        \* leveraging the _TETrace operator.  For example, this is how to
        \* count the number of times a spec variable changed up to the current
        \* state in the trace.
        \* ,_lastNewModCount |->
        \*     LET F[s \in DOMAIN _TETrace] ==
        \*         IF s = 1 THEN 0
        \*         ELSE IF _TETrace[s].lastNew # _TETrace[s-1].lastNew
        \*             THEN 1 + F[s-1] ELSE F[s-1]
        \*     IN F[_TEPosition - 1]
    ]

=============================================================================



Parsing and semantic processing can take forever if the trace below is long.
 In this case, it is advised to uncomment the module below to deserialize the
 trace from a generated binary file.

\*
\*---- MODULE WasiFd_TETrace ----
\*EXTENDS IOUtils, TLC, WasiFd
\*
\*trace == IODeserialize("WasiFd_TTrace_1790626979.bin", TRUE)
\*
\*=============================================================================
\*

---- MODULE WasiFd_TETrace ----
EXTENDS TLC, WasiFd

trace == 
    <<
    ([dfree |-> FALSE,wrongerr |-> FALSE,cells |-> <<"live">>,opens |-> 0,uses |-> 0,lastNew |-> -1,uaf |-> FALSE,table |-> <<[fd |-> 0, dir |-> FALSE, cell |-> 0, kind |-> "std"], [fd |-> 1, dir |-> FALSE, cell |-> 0, kind |-> "std"], [fd |-> 2, dir |-> FALSE, cell |-> 0, kind |-> "std"], [fd |-> -1, dir |-> FALSE, cell |-> 1, kind |-> "preopen"]>>,closes |-> 0]),
    ([dfree |-> FALSE,wrongerr |-> FALSE,cells |-> <<"freed">>,opens |-> 0,uses |-> 0,lastNew |-> -1,uaf |-> FALSE,table |-> <<[fd |-> 0, dir |-> FALSE, cell |-> 0, kind |-> "std"], [fd |-> 1, dir |-> FALSE, cell |-> 0, kind |-> "std"], [fd |-> 2, dir |-> FALSE, cell |-> 0, kind |-> "std"], [fd |-> -1, dir |-> FALSE, cell |-> 1, kind |-> "closed"]>>,closes |-> 1]),
    ([dfree |-> TRUE,wrongerr |-> TRUE,cells |-> <<"freed">>,opens |-> 0,uses |-> 0,lastNew |-> -1,uaf |-> FALSE,table |-> <<[fd |-> 0, dir |-> FALSE, cell |-> 0, kind |-> "std"], [fd |-> 1, dir |-> FALSE, cell |-> 0, kind |-> "std"], [fd |-> 2, dir |-> FALSE, cell |-> 0, kind |-> "std"], [fd |-> -1, dir |-> FALSE, cell |-> 1, kind |-> "closed"]>>,closes |-> 2])
    >>
----


=============================================================================

---- CONFIG WasiFd_TTrace_1790626979 ----
CONSTANTS
    Variant = "AsCoded"
    MaxOpens = 3
    MaxCloses = 3
    MaxUses = 2
    Numbers = { 0 , 3 , 4 , 5 , 6 , 7 }

INVARIANT
    _inv

CHECK_DEADLOCK
    \* CHECK_DEADLOCK off because of PROPERTY or INVARIANT above.
    FALSE

INIT
    _init

NEXT
    _next

CONSTANT
    _TETrace <- _trace

ALIAS
    _expression
=============================================================================
\* Generated on Mon Sep 28 20:23:00 UTC 2026