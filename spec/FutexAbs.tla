------------------------------ MODULE FutexAbs ------------------------------
(***************************************************************************)
(* memory.atomic.wait / notify at API granularity (C17).                   *)
(*                                                                         *)
(* A thread's operation is bracketed by Call and Ret; what happens in      *)
(* between is one or two atomic abstract steps:                            *)
(*   wait   : WaitCheck (compare the cell; either "not-equal" -> result 1, *)
(*            or enqueue on the address and block), then either a notify   *)
(*            wakes it (result 0) or, for a finite timeout, Timeout        *)
(*            removes it from the queue (result 2);                        *)
(*   notify : NotifyDo wakes exactly min(count, #blocked on that address)  *)
(*            waiters of THAT address and returns that number;             *)
(*   store  : StoreDo writes the cell.                                     *)
(*   wait (host out of memory) : WaitFail - the call traps, no effect.     *)
(* A waiter is woken by at most one notify because waking removes it from  *)
(* the queue.  Which of several waiters a notify picks is not specified.   *)
(***************************************************************************)
EXTENDS Naturals, Integers, FiniteSets, Sequences

CONSTANT Threads
VARIABLES cell,      \* address -> value (absent = 0)
          waiting,   \* address -> set of blocked threads
          ts         \* thread -> [st, op, a, x, timed, res]
avars == <<cell, waiting, ts>>

Idle == [st |-> "idle", op |-> "", a |-> 0, x |-> 0, timed |-> FALSE, res |-> 0]
Cell(a) == IF a \in DOMAIN cell THEN cell[a] ELSE 0
Waiting(a) == IF a \in DOMAIN waiting THEN waiting[a] ELSE {}
SetF(f, k, v) == [y \in DOMAIN f \cup {k} |-> IF y = k THEN v ELSE f[y]]
\* queues are kept only while non-empty
SetW(f, k, S) == IF S = {} THEN [y \in DOMAIN f \ {k} |-> f[y]] ELSE SetF(f, k, S)

AInit == /\ cell = <<>> /\ waiting = <<>> /\ ts = [t \in Threads |-> Idle]

\* op in {"wait32","wait64","notify","store"}; x = expected value / count / stored value
Call(t, op, a, x, timed) ==
    /\ ts[t].st = "idle"
    /\ ts' = [ts EXCEPT ![t] = [st |-> "called", op |-> op, a |-> a, x |-> x, timed |-> timed, res |-> 0]]
    /\ UNCHANGED <<cell, waiting>>

WaitCheck(t) ==
    /\ ts[t].st = "called" /\ ts[t].op \in {"wait32", "wait64"}
    /\ IF Cell(ts[t].a) # ts[t].x
       THEN /\ ts' = [ts EXCEPT ![t].st = "ready", ![t].res = 1]
            /\ UNCHANGED waiting
       ELSE /\ ts' = [ts EXCEPT ![t].st = "blocked"]
            /\ waiting' = SetF(waiting, ts[t].a, Waiting(ts[t].a) \cup {t})
    /\ UNCHANGED cell

\* the host cannot allocate what blocking needs (the wait record, the map or the map node of the address): the call ends in a
\* trap - result 3 here -, nothing is enqueued and no waiter of this or any other address is disturbed
WaitFail(t) ==
    /\ ts[t].st = "called" /\ ts[t].op \in {"wait32", "wait64"}
    /\ Cell(ts[t].a) = ts[t].x
    /\ ts' = [ts EXCEPT ![t].st = "ready", ![t].res = 3]
    /\ UNCHANGED <<cell, waiting>>

Min(x, y) == IF x < y THEN x ELSE y

\* W: the waiters this notify wakes
NotifyDo(t, W) ==
    /\ ts[t].st = "called" /\ ts[t].op = "notify"
    /\ W \subseteq Waiting(ts[t].a)
    /\ Cardinality(W) = Min(ts[t].x, Cardinality(Waiting(ts[t].a)))
    /\ ts' = [u \in Threads |-> IF u = t THEN [ts[t] EXCEPT !.st = "ready", !.res = Cardinality(W)]
                                ELSE IF u \in W THEN [ts[u] EXCEPT !.st = "ready", !.res = 0]
                                ELSE ts[u]]
    /\ waiting' = SetW(waiting, ts[t].a, Waiting(ts[t].a) \ W)
    /\ UNCHANGED cell

Timeout(t) ==
    /\ ts[t].st = "blocked" /\ ts[t].timed
    /\ ts' = [ts EXCEPT ![t].st = "ready", ![t].res = 2]
    /\ waiting' = SetW(waiting, ts[t].a, Waiting(ts[t].a) \ {t})
    /\ UNCHANGED cell

StoreDo(t) ==
    /\ ts[t].st = "called" /\ ts[t].op = "store"
    /\ cell' = SetF(cell, ts[t].a, ts[t].x)
    /\ ts' = [ts EXCEPT ![t].st = "ready"]
    /\ UNCHANGED waiting

Ret(t, r) ==
    /\ ts[t].st = "ready" /\ ts[t].res = r
    /\ ts' = [ts EXCEPT ![t] = Idle]
    /\ UNCHANGED <<cell, waiting>>

Internal == \E t \in Threads : \/ WaitCheck(t) \/ WaitFail(t) \/ Timeout(t) \/ StoreDo(t)
                               \/ \E W \in SUBSET Waiting(ts[t].a) : NotifyDo(t, W)

----------------------------------------------------------------------------
(* invariants of the abstract protocol *)
AbsTypeOK ==
    /\ \A a \in DOMAIN waiting : \A t \in waiting[a] : ts[t].st = "blocked" /\ ts[t].a = a
    /\ \A t \in Threads : ts[t].st = "blocked" => t \in Waiting(ts[t].a)
\* a thread is queued on at most one address
OneQueue == \A a, b \in DOMAIN waiting : a # b => waiting[a] \cap waiting[b] = {}
=============================================================================
