------------------------------- MODULE Endian -------------------------------
(***************************************************************************)
(* C19: linear memory is little-endian whatever the host's byte order.     *)
(*                                                                         *)
(* A host has byte order h; the runtime header is configured with          *)
(* e = WASM_ENDIAN.  A native access of w bytes lays a value out in order  *)
(* h.  The header's accessors (from its DEFINE_* tables; WasmOps gives     *)
(* width, signedness and result width of every flavour) are, for           *)
(*   e = LE : the native access;                                           *)
(*   e = BE : for w > 1 the native access of the byte-reversed value       *)
(*            (stores), the byte reversal of the natively loaded value     *)
(*            (loads); read-modify-write = reversed load, operate,         *)
(*            reversed store; 8-bit accesses untouched.                    *)
(*                                                                         *)
(* Correct: on a matching host (e = h) the memory image of a store is the  *)
(* little-endian image of the wrapped value and a load returns the         *)
(* extended little-endian value - for h = BE this is the property on a     *)
(* real big-endian host.  The same definitions evaluated at (h = LE,       *)
(* e = BE) - the configuration that can be executed on x86 - predict the   *)
(* byte-reversed image; these predictions are replayed against the real    *)
(* header compiled with -DWASM_ENDIAN=1 (and again with the default).      *)
(***************************************************************************)
EXTENDS Word, WasmOps, TLC, Json, IOUtils

Rev(s) == T([i \in 1..Len(s) |-> s[Len(s) + 1 - i]])
\* a w-byte value (LE limbs) as it lies in memory after a native store on host h
Native(h, bytes) == IF h = "LE" THEN bytes ELSE Rev(bytes)
\* what the header stores / how it reads back
StoreImage(h, e, bytes) == Native(h, IF e = "BE" /\ Len(bytes) > 1 THEN Rev(bytes) ELSE bytes)
LoadValue(h, e, image) == LET n == Native(h, image) IN IF e = "BE" /\ Len(image) > 1 THEN Rev(n) ELSE n

\* pairwise distinct bytes, every other one with its top bit set: sign-extending loads see both signs, whichever byte ends up on top
Mem0 == T([i \in 1..24 |-> IF i % 2 = 1 THEN 128 + i ELSE 16 + i])
Put(mem, a, img) == T([i \in 1..Len(mem) |-> IF i > a /\ i <= a + Len(img) THEN img[i - a] ELSE mem[i]])
Get(mem, a, w) == SubSeq(mem, a + 1, a + w)

Flavours == {op \in AllOps : OpInfo(op).c \in {"load", "store", "aload", "astore", "armw", "acmpxchg"}}

\* one call of flavour op at address a with operand v (and second operand v2 for cmpxchg = replacement;
\* its expected operand is what the cell holds, so the exchange happens), on host h with configuration e
EvalOn(M0, op, h, e, a, v, v2) ==
    LET i == OpInfo(op)
        w == i.x
        old == LoadValue(h, e, Get(M0, a, w))
        ext(b) == IF i.c = "load" /\ i.o = "s" THEN ExtendS(b, i.k) ELSE ExtendU(b, i.k)
    IN  CASE i.c \in {"load", "aload"} -> [mem |-> M0, ret |-> ext(old)]
          [] i.c \in {"store", "astore"} -> [mem |-> Put(M0, a, StoreImage(h, e, Wrap(v, w))), ret |-> <<>>]
          [] i.c = "armw" ->
              LET arg == Wrap(v, w)
                  new == CASE i.o = "add" -> Add(old, arg) [] i.o = "sub" -> Sub(old, arg) [] i.o = "and" -> WAnd(old, arg)
                           [] i.o = "or" -> WOr(old, arg) [] i.o = "xor" -> WXor(old, arg) [] i.o = "xchg" -> arg
              IN  [mem |-> Put(M0, a, StoreImage(h, e, new)), ret |-> ExtendU(old, i.k)]
          [] i.c = "acmpxchg" -> [mem |-> Put(M0, a, StoreImage(h, e, Wrap(v2, w))), ret |-> ExtendU(old, i.k)]

Eval(op, h, e, a, v, v2) == EvalOn(Mem0, op, h, e, a, v, v2)
\* a load, a store of ANOTHER width over (part of) the same bytes, the same load again - all at one constant address, as one piece of
\* straight-line code: memory is bytes, so the second load sees what the store left (in configuration e the store leaves its image
\* reversed, and the load reverses what it finds: both predicted here byte by byte)
EvalSeq(ld, st, h, e, a, v) ==
    LET r1 == EvalOn(Mem0, ld, h, e, a, v, v)
        m2 == EvalOn(Mem0, st, h, e, a, v, v).mem
        r3 == EvalOn(m2, ld, h, e, a, v, v)
    IN  [mem |-> m2, ret |-> r1.ret \o r3.ret]
SeqLoads == {"i32.load16_u", "i32.load", "i64.load32_u", "i64.load", "i32.load8_u", "i64.load16_s", "i64.load8_s"}
SeqStores == {"i32.store", "i32.store16", "i64.store", "i64.store32", "i32.store8", "i64.store8", "i64.store16"}
SeqCases == {<<ld, st, e, a>> : ld \in SeqLoads, st \in SeqStores, e \in {"LE", "BE"}, a \in {0, 8}}
\* the little-endian image the specification prescribes, independent of h and e
SpecImage(op, a, v, v2) == Eval(op, "LE", "LE", a, v, v2).mem

Val8 == <<201, 202, 203, 204, 205, 206, 207, 208>>
ValOf(op) == Wrap(Val8, OpInfo(op).k)
Val2Of(op) == Wrap(<<11, 22, 33, 44, 55, 66, 77, 88>>, OpInfo(op).k)

\* for stores the operand is what lies in memory; for a matching host the image is LE(v):
StoreLE == \A op \in Flavours : OpInfo(op).c \in {"store", "astore"} => \A h \in {"LE", "BE"} :
    Get(Eval(op, h, h, 3, ValOf(op), Val2Of(op)).mem, 3, OpInfo(op).x) = Wrap(ValOf(op), OpInfo(op).x)
\* a value stored and loaded back through accessors of the same width, on any matching host, is unchanged
RoundTrip == \A h \in {"LE", "BE"} : \A w \in {1, 2, 4, 8} : LoadValue(h, h, StoreImage(h, h, Wrap(Val8, w))) = Wrap(Val8, w)
\* exactly one reversal of exactly the access width in the executable configuration (h = LE, e = BE); none for width 1
OneReversal == \A w \in {1, 2, 4, 8} : StoreImage("LE", "BE", Wrap(Val8, w)) = (IF w = 1 THEN Wrap(Val8, w) ELSE Rev(Wrap(Val8, w)))
\* mismatched configuration on a BE host would be wrong - the reason WASM_ENDIAN must follow the host
Mismatch == StoreImage("BE", "LE", Wrap(Val8, 4)) # Wrap(Val8, 4)
ASSUME StoreLE /\ RoundTrip /\ OneReversal /\ Mismatch

----------------------------------------------------------------------------
(* predictions for the executable host: OUTFILE lines [op, e, a, v, v2, mem, ret] *)
VARIABLE k
Init == k = 0
Next == k = 0 /\ k' = 1
Aligned(op, a) == IF OpInfo(op).c \in {"load", "store"} THEN TRUE ELSE a % OpInfo(op).x = 0
Cases == {<<op, e, a>> : op \in Flavours, e \in {"LE", "BE"}, a \in {0, 1, 2, 3, 4, 5, 7, 8}}
Predict == (k = 1) =>
    ndJsonSerialize(IOEnv.OUTFILE,
        LET S == {c \in Cases : Aligned(c[1], c[3])}
            RECURSIVE Sq(_)
            Sq(R) == IF R = {} THEN <<>> ELSE LET c == CHOOSE c \in R : TRUE
                                                   r == Eval(c[1], "LE", c[2], c[3], ValOf(c[1]), Val2Of(c[1]))
                                               IN <<[op |-> c[1], e |-> c[2], a |-> c[3], v |-> ValOf(c[1]), v2 |-> Val2Of(c[1]),
                                                     mem |-> r.mem, ret |-> r.ret, kind |-> OpInfo(c[1]).c]>> \o Sq(R \ {c})
            RECURSIVE Sq2(_)
            Sq2(R) == IF R = {} THEN <<>> ELSE LET c == CHOOSE c \in R : TRUE
                                                    r == EvalSeq(c[1], c[2], "LE", c[3], c[4], ValOf(c[2]))
                                                IN <<[op |-> c[1], op2 |-> c[2], e |-> c[3], a |-> c[4], v |-> ValOf(c[2]), v2 |-> <<>>,
                                                      mem |-> r.mem, ret |-> r.ret, kind |-> "seq"]>> \o Sq2(R \ {c})
        IN Sq(S) \o Sq2({c \in SeqCases : OpInfo(c[1]).x # OpInfo(c[2]).x}) \o
           \* the translator's own reader of float immediates (buffer.h) in both configurations
           [j \in 1..4 |-> LET e == IF j <= 2 THEN "LE" ELSE "BE"  w == IF j % 2 = 1 THEN 4 ELSE 8 IN
              [op |-> IF w = 4 THEN "bufferReadF32" ELSE "bufferReadF64", e |-> e, a |-> 0, v |-> Wrap(Val8, w), v2 |-> <<>>,
               mem |-> <<>>, ret |-> LoadValue("LE", e, Wrap(Val8, w)), kind |-> "buffer"]])
=============================================================================
