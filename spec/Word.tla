------------------------------- MODULE Word -------------------------------
(***************************************************************************)
(* Fixed-width two's-complement words as little-endian limb sequences.     *)
(*                                                                         *)
(* TLC integers are 32-bit Java ints, so a u32 or u64 cannot be a TLC      *)
(* number.  A word is a sequence of K limbs, limb i (1-based) holding bits *)
(* (i-1)*LB .. i*LB-1.  With LB = 8 the sequence *is* the little-endian    *)
(* memory image of the value, which is what the conformance drivers        *)
(* exchange as JSON.  With LB = 2 and K = 3 (6-bit words) WordCheck.tla    *)
(* compares every operator below, on all operand pairs, with its textbook  *)
(* definition over Nat / Int.  The operators never look at LB except       *)
(* through Base, Bits and FromBits, so the same text runs at both sizes.   *)
(*                                                                         *)
(* All operators are total.  Division operators return the quotient /     *)
(* remainder only; trapping is decided by the caller (WasmExec).           *)
(***************************************************************************)
EXTENDS Naturals, Integers, Sequences

CONSTANT LB                      \* bits per limb (8 for conformance, 2 for self-check)

Base == 2 ^ LB

\* TLC keeps [i \in S |-> e] as an unevaluated closure; concatenation forces it into a
\* tuple, which keeps nested word operations from being re-evaluated exponentially.
T(f) == f \o <<>>

Width(w) == Len(w) * LB          \* bit width of a word

----------------------------------------------------------------------------
(* bit view: sequence of 0/1, least significant first *)

Bits(w) == T([i \in 1..Width(w) |-> (w[((i - 1) \div LB) + 1] \div (2 ^ ((i - 1) % LB))) % 2])

RECURSIVE LimbOf(_, _, _)
LimbOf(bs, lo, k) ==             \* value of bits bs[lo+1 .. lo+k]
    IF k = 0 THEN 0 ELSE bs[lo + 1] + 2 * LimbOf(bs, lo + 1, k - 1)

FromBits(bs) == T([j \in 1..(Len(bs) \div LB) |-> LimbOf(bs, (j - 1) * LB, LB)])

Zero(K) == T([i \in 1..K |-> 0])
Ones(K) == T([i \in 1..K |-> Base - 1])
IsZero(w) == \A i \in 1..Len(w) : w[i] = 0

\* small naturals <-> words (n must fit TLC's int and the word)
RECURSIVE OfNatR(_, _)
OfNatR(n, K) == IF K = 0 THEN <<>> ELSE <<n % Base>> \o OfNatR(n \div Base, K - 1)
OfNat(n, K) == OfNatR(n, K)

\* value as a Nat; only meaningful when it fits 31 bits (callers check Fits)
RECURSIVE ToNatR(_, _)
ToNatR(w, i) == IF i > Len(w) THEN 0 ELSE w[i] + Base * ToNatR(w, i + 1)
ToNat(w) == ToNatR(w, 1)

\* TRUE iff the value is below 2^nbits (nbits a multiple of LB)
FitsBits(w, nbits) == \A i \in 1..Len(w) : (i - 1) * LB >= nbits => w[i] = 0

SignBit(w) == w[Len(w)] \div (Base \div 2)

----------------------------------------------------------------------------
(* addition, subtraction, negation, multiplication (mod 2^Width) *)

RECURSIVE AddC(_, _, _, _)
AddC(a, b, i, c) ==
    IF i > Len(a) THEN <<>>
    ELSE LET s == a[i] + b[i] + c
         IN  <<s % Base>> \o AddC(a, b, i + 1, s \div Base)

Add(a, b) == AddC(a, b, 1, 0)

Cpl(a) == T([i \in 1..Len(a) |-> Base - 1 - a[i]])   \* one's complement
Neg(a) == AddC(Cpl(a), Zero(Len(a)), 1, 1)
Sub(a, b) == AddC(a, Cpl(b), 1, 1)

\* carry out of a + b (0/1): used for unsigned comparison-free overflow tests
RECURSIVE CarryOut(_, _, _, _)
CarryOut(a, b, i, c) ==
    IF i > Len(a) THEN c ELSE CarryOut(a, b, i + 1, (a[i] + b[i] + c) \div Base)

\* a * (single limb d) + carry-in word, truncated to Len(a) limbs
RECURSIVE MulLimb(_, _, _, _)
MulLimb(a, d, i, c) ==
    IF i > Len(a) THEN <<>>
    ELSE LET p == a[i] * d + c
         IN  <<p % Base>> \o MulLimb(a, d, i + 1, p \div Base)

ShiftLimbs(a, k) == T([i \in 1..Len(a) |-> IF i <= k THEN 0 ELSE a[i - k]])   \* a * Base^k, truncated

RECURSIVE MulR(_, _, _)
MulR(a, b, j) ==
    IF j > Len(b) THEN Zero(Len(a))
    ELSE Add(ShiftLimbs(MulLimb(a, b[j], 1, 0), j - 1), MulR(a, b, j + 1))

Mul(a, b) == MulR(a, b, 1)

----------------------------------------------------------------------------
(* comparisons *)

RECURSIVE CmpU(_, _, _)
CmpU(a, b, i) ==                 \* -1, 0, 1 comparing from limb i downwards
    IF i = 0 THEN 0
    ELSE IF a[i] < b[i] THEN -1
    ELSE IF a[i] > b[i] THEN 1
    ELSE CmpU(a, b, i - 1)

LtU(a, b) == CmpU(a, b, Len(a)) = -1
LeU(a, b) == CmpU(a, b, Len(a)) <= 0
FlipSign(a) == T([i \in 1..Len(a) |-> IF i = Len(a) THEN (a[i] + Base \div 2) % Base ELSE a[i]])
LtS(a, b) == LtU(FlipSign(a), FlipSign(b))
LeS(a, b) == LeU(FlipSign(a), FlipSign(b))

----------------------------------------------------------------------------
(* bitwise *)

RECURSIVE BitOp2(_, _, _, _)
BitOp2(op, x, y, k) ==           \* op \in {"and","or","xor"} on k-bit naturals
    IF k = 0 THEN 0
    ELSE LET p == x % 2  q == y % 2
             r == CASE op = "and" -> p * q
                    [] op = "or"  -> IF p + q > 0 THEN 1 ELSE 0
                    [] op = "xor" -> (p + q) % 2
         IN  r + 2 * BitOp2(op, x \div 2, y \div 2, k - 1)

WAnd(a, b) == T([i \in 1..Len(a) |-> BitOp2("and", a[i], b[i], LB)])
WOr(a, b)  == T([i \in 1..Len(a) |-> BitOp2("or",  a[i], b[i], LB)])
WXor(a, b) == T([i \in 1..Len(a) |-> BitOp2("xor", a[i], b[i], LB)])

----------------------------------------------------------------------------
(* shifts and rotates; the count is a word of any width, used mod Width(a) *)

\* count mod W as a Nat: W is a power of two <= 2^16 or so; only the low limbs matter
CountMod(cnt, W) ==
    LET RECURSIVE Low(_, _)
        Low(i, acc) == IF i > Len(cnt) \/ Base ^ (i - 1) >= W THEN acc
                       ELSE Low(i + 1, acc + cnt[i] * Base ^ (i - 1))
    IN  Low(1, 0) % W

ShlBits(bs, k)  == T([i \in 1..Len(bs) |-> IF i <= k THEN 0 ELSE bs[i - k]])
ShrUBits(bs, k) == T([i \in 1..Len(bs) |-> IF i + k > Len(bs) THEN 0 ELSE bs[i + k]])
ShrSBits(bs, k) == T([i \in 1..Len(bs) |-> IF i + k > Len(bs) THEN bs[Len(bs)] ELSE bs[i + k]])
RotlBits(bs, k) == T([i \in 1..Len(bs) |-> bs[((i - 1 - k + Len(bs)) % Len(bs)) + 1]])
RotrBits(bs, k) == T([i \in 1..Len(bs) |-> bs[((i - 1 + k) % Len(bs)) + 1]])

Shl(a, cnt)  == FromBits(ShlBits(Bits(a),  CountMod(cnt, Width(a))))
ShrU(a, cnt) == FromBits(ShrUBits(Bits(a), CountMod(cnt, Width(a))))
ShrS(a, cnt) == FromBits(ShrSBits(Bits(a), CountMod(cnt, Width(a))))
Rotl(a, cnt) == FromBits(RotlBits(Bits(a), CountMod(cnt, Width(a))))
Rotr(a, cnt) == FromBits(RotrBits(Bits(a), CountMod(cnt, Width(a))))

----------------------------------------------------------------------------
(* bit counting; results are words of the same width *)

RECURSIVE ClzN(_, _)
ClzN(bs, i) == IF i = 0 THEN 0 ELSE IF bs[i] = 1 THEN 0 ELSE 1 + ClzN(bs, i - 1)
RECURSIVE CtzN(_, _)
CtzN(bs, i) == IF i > Len(bs) THEN 0 ELSE IF bs[i] = 1 THEN 0 ELSE 1 + CtzN(bs, i + 1)
RECURSIVE PopN(_, _)
PopN(bs, i) == IF i > Len(bs) THEN 0 ELSE bs[i] + PopN(bs, i + 1)

Clz(a)    == OfNat(ClzN(Bits(a), Width(a)), Len(a))
Ctz(a)    == OfNat(CtzN(Bits(a), 1), Len(a))
Popcnt(a) == OfNat(PopN(Bits(a), 1), Len(a))

----------------------------------------------------------------------------
(* unsigned division by restoring long division on bits *)

\* state: remainder word r, quotient bits; processes dividend bits from the top
\* (2*r + bit) mod 2^Width, limb by limb
RECURSIVE Shl1(_, _, _)
Shl1(r, i, c) ==
    IF i > Len(r) THEN <<>>
    ELSE LET v == 2 * r[i] + c IN <<v % Base>> \o Shl1(r, i + 1, v \div Base)

RECURSIVE DivStep(_, _, _, _, _)
DivStep(abits, d, i, r, q) ==
    \* r < d holds on entry, so 2r+1 < 2d fits in Width+1 bits: track the shifted-out bit
    IF i = 0 THEN [q |-> q, r |-> r]
    ELSE LET top == SignBit(r)
             r2  == Shl1(r, 1, abits[i])
             ge  == top = 1 \/ LeU(d, r2)
         IN  \* branching on ge here (rather than inside the arguments) makes TLC evaluate
             \* r and r2 at every level instead of building a 64-deep chain of thunks
             IF ge THEN DivStep(abits, d, i - 1, Sub(r2, d), [q EXCEPT ![i] = 1])
                   ELSE DivStep(abits, d, i - 1, r2, q)

DivModU(a, d) ==                 \* d # 0
    LET res == DivStep(Bits(a), d, Width(a), Zero(Len(a)), T([i \in 1..Width(a) |-> 0]))
    IN  [q |-> FromBits(res.q), r |-> res.r]

DivU(a, d) == DivModU(a, d).q
RemU(a, d) == DivModU(a, d).r

Abs(a) == IF SignBit(a) = 1 THEN Neg(a) ELSE a

\* signed division truncating toward zero; remainder has the sign of the dividend.
\* For (MIN, -1) the quotient wraps to MIN (the caller traps) and the remainder is 0.
DivS(a, d) ==
    LET q == DivU(Abs(a), Abs(d))
    IN  IF SignBit(a) # SignBit(d) THEN Neg(q) ELSE q
RemS(a, d) ==
    LET r == RemU(Abs(a), Abs(d))
    IN  IF SignBit(a) = 1 THEN Neg(r) ELSE r

MinS(K) == T([i \in 1..K |-> IF i = K THEN Base \div 2 ELSE 0])
MaxS(K) == T([i \in 1..K |-> IF i = K THEN Base \div 2 - 1 ELSE Base - 1])

----------------------------------------------------------------------------
(* width changes *)

Wrap(a, K)    == T([i \in 1..K |-> a[i]])   \* keep low K limbs
ExtendU(a, K) == T([i \in 1..K |-> IF i <= Len(a) THEN a[i] ELSE 0])
ExtendS(a, K) == T([i \in 1..K |-> IF i <= Len(a) THEN a[i]
                                   ELSE IF SignBit(a) = 1 THEN Base - 1 ELSE 0])
\* sign-extend the low n limbs of a in place (extendN_s)
ExtendLowS(a, n) == ExtendS(Wrap(a, n), Len(a))

Bool(p, K) == IF p THEN OfNat(1, K) ELSE Zero(K)
=============================================================================
