------------------------------- MODULE Mangle -------------------------------
(***************************************************************************)
(* C identifiers for import names (C04).  A name is a sequence of byte     *)
(* values.  Esc is the documented escaping: alphanumerics except the       *)
(* escape letter X stay, an underscore directly after an underscore        *)
(* becomes two underscores, every other byte b becomes X followed by two   *)
(* upper-case hex digits.  The identifier of import (module, name) is      *)
(* Esc(module) __ Esc(name).                                               *)
(*                                                                         *)
(* A call can only reach "the function the specification designates" if    *)
(* distinct imports get distinct identifiers: Injective.                   *)
(***************************************************************************)
EXTENDS Naturals, Sequences, FiniteSets, TLC, Json, IOUtils

IsAlnum(b) == (b >= 48 /\ b <= 57) \/ (b >= 65 /\ b <= 90) \/ (b >= 97 /\ b <= 122)
Hex(d) == IF d < 10 THEN 48 + d ELSE 55 + d                \* '0'..'9', 'A'..'F'
RECURSIVE EscR(_, _)
EscR(s, i) ==
    IF i > Len(s) THEN <<>>
    ELSE LET b == s[i]
             piece == IF b = 95 THEN (IF i > 1 /\ s[i - 1] = 95 THEN <<95, 95>> ELSE <<95>>)
                      ELSE IF b # 88 /\ IsAlnum(b) THEN <<b>>
                      ELSE <<88, Hex(b \div 16), Hex(b % 16)>>
         IN  piece \o EscR(s, i + 1)
Esc(s) == EscR(s, 1)
Ident(mod, name) == Esc(mod) \o <<95, 95>> \o Esc(name)

----------------------------------------------------------------------------
(* injectivity over all names up to length MaxLen over a small alphabet that contains one
   member of every escaping class: letter, the escape letter, underscore, digit, a two-byte
   UTF-8 character (bytes >= 0x80), punctuation *)
CONSTANT MaxLen
Alphabet == {97, 88, 95, 48, 36}
AlphabetSmall == {97, 88, 95}      \* the classes that interact at the separator; lets MaxLen = 3 finish (pairs of pairs are enumerated)
RECURSIVE Names(_)
Names(n) == IF n = 0 THEN {<<>>} ELSE LET S == Names(n - 1) IN S \cup {s \o <<c>> : s \in {t \in S : Len(t) = n - 1}, c \in Alphabet}
AllNames == Names(MaxLen) \cup {<<195, 169>>, <<97, 195, 169>>}        \* plus "e-acute", "a e-acute"
Pairs == AllNames \X AllNames

\* the set of unordered colliding pairs of distinct imports
Collisions == {pq \in Pairs \X Pairs :
                 /\ pq[1] # pq[2]
                 /\ Ident(pq[1][1], pq[1][2]) = Ident(pq[2][1], pq[2][2])}

\* Two kinds of collision.  Separator kind: the escaped module parts differ, i.e. the same identifier text is split at
\* different places - possible only because the separator "__" also arises from underscores next to it (the known
\* finding: ("a_","b") / ("a","_b"), and with the doubled-underscore rule ("_","X__") / ("__X","_")).  Escape kind: the
\* parts are escaped to the same text although they differ - the escaping itself would not be injective.
BoundaryKind(pq) == Esc(pq[1][1]) # Esc(pq[2][1])

VARIABLE st
Init == st = 0
Next == st = 0 /\ st' = 1
Report == (st = 1) =>
    LET C == Collisions
        other == {pq \in C : ~BoundaryKind(pq)}
        ex == IF C = {} THEN <<>> ELSE LET pq == CHOOSE pq \in C : \A r \in C : Len(pq[1][1]) + Len(pq[1][2]) <= Len(r[1][1]) + Len(r[1][2]) IN <<pq>>
    IN  ndJsonSerialize(IOEnv.OUTFILE, <<[names |-> Cardinality(AllNames), pairs |-> Cardinality(Pairs),
                                         collisions |-> Cardinality(C), nonboundary |-> Cardinality(other),
                                         example |-> ex,
                                         otherexample |-> IF other = {} THEN <<>> ELSE <<CHOOSE pq \in other : TRUE>>]>>)

----------------------------------------------------------------------------
(* identifiers for the names a run uses: INFILE lines [mod: bytes, name: bytes] *)
Req == ndJsonDeserialize(IOEnv.INFILE)
IdentOut == (st = 1) => ndJsonSerialize(IOEnv.OUTFILE,
               [j \in 1..Len(Req) |-> [mod |-> Req[j].mod, name |-> Req[j].name, ident |-> Ident(Req[j].mod, Req[j].name)]])
=============================================================================
