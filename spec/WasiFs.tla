------------------------------- MODULE WasiFs -------------------------------
(***************************************************************************)
(* WASI file I/O over a small POSIX file model (C12), and the descriptor   *)
(* table (C13), as a state machine:                                        *)
(*                                                                         *)
(*  fs   : path (relative to the pre-opened sandbox directory) -> node     *)
(*         node = [kind |-> "dir"] | [kind |-> "file", ino] | link         *)
(*  files: ino -> [size, data], the files themselves.  A name is only a    *)
(*         directory entry: an open descriptor holds the FILE (its ino),   *)
(*         so unlinking or renaming the name, or giving the name to        *)
(*         another file, changes nothing the descriptor sees (POSIX).      *)
(*         size is a 64-bit word (8 limbs), data maps 64-bit offsets to    *)
(*         the bytes written there (holes read as zero): files may be      *)
(*         sparse and offsets beyond 2^32 are ordinary.                    *)
(*  fds  : sequence indexed by descriptor number (0,1,2 standard streams,  *)
(*         3 the pre-opened directory); descriptors are never reused.      *)
(*         entry = [st, kind, path, ino, pos, app, rd, wr]                 *)
(*         st \in {"std","preopen","open","closed"}                        *)
(*                                                                         *)
(* Every call is an operator  Call(s, c)  returning the new state together *)
(* with the result the guest must observe: errno and the values stored in  *)
(* guest memory (counts as u32, offsets and sizes as u64, data read).      *)
(* After a successful fd_close, and for numbers never issued, every        *)
(* descriptor-taking call returns EBADF before touching anything else.     *)
(*                                                                         *)
(* WasiReplay (below the line) drives this model through the histories a   *)
(* check run generated and writes the expected observation per call.       *)
(***************************************************************************)
EXTENDS Word, TLC, Json, IOUtils, FiniteSets

EUNSPEC == 999      \* the model does not say what happens (such calls are not compared)
ESUCCESS == 0  EBADF == 8  EEXIST == 20  EINVAL == 28  EISDIR == 31  ENOENT == 44  ENOTDIR == 54  ENOTEMPTY == 55  ELOOP == 32  EBUSY == 10

W8(n) == OfNat(n, 8)
Z8 == Zero(8)
SetF(f, k, v) == [y \in DOMAIN f \cup {k} |-> IF y = k THEN v ELSE f[y]]
DelF(f, k) == [y \in DOMAIN f \ {k} |-> f[y]]

Join(dir, p) == IF dir = "" THEN p ELSE IF p = "" THEN dir ELSE dir \o "/" \o p
Exists(s, p) == p \in DOMAIN s.fs
IsDir(s, p) == p = "" \/ (Exists(s, p) /\ s.fs[p].kind = "dir")
IsFile(s, p) == Exists(s, p) /\ s.fs[p].kind = "file"
EmptyFile == [size |-> Z8, data |-> <<>>]
FileNode(ino) == [kind |-> "file", ino |-> ino]
FileAt(s, p) == s.files[s.fs[p].ino]

Init0 == [fs |-> <<>>, files |-> <<>>,
          fds |-> <<[st |-> "std", kind |-> "file", path |-> "", pseq |-> <<>>, ino |-> 0, pos |-> Z8, app |-> FALSE, rd |-> TRUE, wr |-> FALSE],
                    [st |-> "std", kind |-> "file", path |-> "", pseq |-> <<>>, ino |-> 0, pos |-> Z8, app |-> FALSE, rd |-> FALSE, wr |-> TRUE],
                    [st |-> "std", kind |-> "file", path |-> "", pseq |-> <<>>, ino |-> 0, pos |-> Z8, app |-> FALSE, rd |-> FALSE, wr |-> TRUE],
                    [st |-> "preopen", kind |-> "dir", path |-> "", pseq |-> <<>>, ino |-> 0, pos |-> Z8, app |-> FALSE, rd |-> TRUE, wr |-> FALSE]>>]

Live(s, fd) == fd >= 0 /\ fd < Len(s.fds) /\ s.fds[fd + 1].st # "closed"
FdOf(s, fd) == s.fds[fd + 1]
Res(s, e, out) == [s |-> s, errno |-> e, out |-> out]
NoOut == [x |-> 0]

\* bytes of a file in [off, off + n)
ByteAt(f, off) == IF off \in DOMAIN f.data THEN f.data[off] ELSE 0
ReadBytes(f, off, n) == T([i \in 1..n |-> ByteAt(f, Add(off, W8(i - 1)))])
RECURSIVE WriteBytes(_, _, _, _)
WriteBytes(data, off, bytes, i) ==
    IF i > Len(bytes) THEN data ELSE WriteBytes(SetF(data, Add(off, W8(i - 1)), bytes[i]), off, bytes, i + 1)
MaxW(a, b) == IF LtU(a, b) THEN b ELSE a
PutAt(f, off, bytes) ==
    IF bytes = <<>> THEN f
    ELSE [f EXCEPT !.data = WriteBytes(f.data, off, bytes, 1), !.size = MaxW(f.size, Add(off, W8(Len(bytes))))]
\* how many bytes are available from off, capped at want (want is a small Nat)
Avail(f, off, want) ==
    IF ~LtU(off, f.size) THEN 0
    ELSE LET d == Sub(f.size, off) IN IF FitsBits(d, 16) /\ ToNat(d) < want THEN ToNat(d) ELSE want

RECURSIVE Concat(_)
Concat(segs) == IF segs = <<>> THEN <<>> ELSE Head(segs) \o Concat(Tail(segs))
RECURSIVE SumLens(_)
SumLens(ls) == IF ls = <<>> THEN 0 ELSE Head(ls) + SumLens(Tail(ls))
\* distribute data over buffers of the given lengths, in order
RECURSIVE Scatter(_, _)
Scatter(data, lens) ==
    IF lens = <<>> THEN <<>>
    ELSE LET k == IF Len(data) < Head(lens) THEN Len(data) ELSE Head(lens)
         IN  <<SubSeq(data, 1, k)>> \o Scatter(SubSeq(data, k + 1, Len(data)), Tail(lens))

----------------------------------------------------------------------------
\* the error of a lookup whose last component is missing: the host says ENOTDIR when the parent exists but is a regular
\* file, follows a parent that is a symbolic link (not modelled), and says ENOENT otherwise
\* (a link whose target is its own name can never be resolved: ELOOP)
\* (a link's target is looked up from the directory the link lies in: it names itself when the target is the link's own last component)
LastSlash(q) == IF \E i \in 1..Len(q) : SubSeq(q, i, i) = "/"
                THEN CHOOSE i \in 1..Len(q) : SubSeq(q, i, i) = "/" /\ \A j \in (i + 1)..Len(q) : SubSeq(q, j, j) # "/" ELSE 0
BaseName(q) == SubSeq(q, LastSlash(q) + 1, Len(q))
SelfLoop(s, q) == Exists(s, q) /\ s.fs[q].kind = "link" /\ s.fs[q].target = BaseName(q)
\* k lies below directory p (paths are strings: p, then a slash, then more)
Below(k, p) == Len(k) > Len(p) + 1 /\ SubSeq(k, 1, Len(p) + 1) = p \o "/"
\* (the same holds when it is a directory further up the path that is a file or a link: the first thing on the way that is not a
\* directory decides - there is at most one, since nothing lies below a file or a link)
Missing(s, pp) == LET nd == {k \in DOMAIN s.fs : (k = pp \/ Below(pp, k)) /\ s.fs[k].kind # "dir"} IN
                  IF nd = {} THEN ENOENT
                  ELSE LET k == CHOOSE x \in nd : TRUE IN
                       IF s.fs[k].kind = "file" THEN ENOTDIR
                       ELSE IF k = pp /\ SelfLoop(s, pp) THEN ELOOP
                       ELSE EUNSPEC
(* Path resolution as the host does it (POSIX 4.13), for guest paths with "." and ".." components and symbolic links to
   directories on the way: walk mode (c.walk).  The binder splits the guest path into the components that lead to the
   directory of the last name (c.wcomps) and that name (c.wlast, "" when the whole path denotes a directory - it ends in
   "..", in a link to a directory, ...).  Every component on the way must resolve to a directory: "." stays, ".." goes to
   the parent, a name that is a symbolic link continues at its target (relative to the directory the link lies in), at
   most MaxLinks deep - a cycle ends in ELOOP.  Leaving the sandbox upwards leaves the model (EUNSPEC).  Directories are
   sequences of names here; the file system is keyed by their "/"-joined text.  Calls in the older form (c.walk FALSE)
   carry paths the binder has already normalised. *)
MaxLinks == 8
RECURSIVE JoinSeq(_)
JoinSeq(q) == IF q = <<>> THEN "" ELSE IF Len(q) = 1 THEN q[1] ELSE JoinSeq(SubSeq(q, 1, Len(q) - 1)) \o "/" \o q[Len(q)]
WOk(q) == [err |-> ESUCCESS, seq |-> q]
WErr(e) == [err |-> e, seq |-> <<>>]
RECURSIVE WalkDir(_, _, _, _)
WalkDir(s, cur, comps, depth) ==
    IF comps = <<>> THEN WOk(cur)
    ELSE LET x == Head(comps)  rest == Tail(comps) IN
         IF x = "." THEN WalkDir(s, cur, rest, depth)
         ELSE IF x = ".." THEN (IF cur = <<>> THEN WErr(EUNSPEC) ELSE WalkDir(s, SubSeq(cur, 1, Len(cur) - 1), rest, depth))
         ELSE LET q == JoinSeq(Append(cur, x)) IN
              IF ~Exists(s, q) THEN WErr(ENOENT)
              ELSE IF s.fs[q].kind = "dir" THEN WalkDir(s, Append(cur, x), rest, depth)
              ELSE IF s.fs[q].kind = "file" THEN WErr(ENOTDIR)
              ELSE IF depth >= MaxLinks THEN WErr(ELOOP)
              ELSE IF s.fs[q].tabs THEN WErr(EUNSPEC)                      \* an absolute target leads out of the sandbox
              ELSE LET t == WalkDir(s, cur, s.fs[q].tcomps, depth + 1)
                   IN  IF t.err # ESUCCESS THEN t ELSE WalkDir(s, t.seq, rest, depth)
\* the directory in which the last name of a walk-mode call is looked up
WalkOf(s, c, d) == WalkDir(s, IF c.abs THEN <<>> ELSE d.pseq, c.wcomps, 0)
LinkNode(c) == [kind |-> "link", target |-> c.target, tcomps |-> c.tcomps, tabs |-> c.tabs]

(* path_open: oflags bits creat 1, directory 2, excl 4, trunc 8; c.rd / c.wr from the rights; c.app from fdflags *)
PathOpen(s, c) ==
    IF ~Live(s, c.dirfd) THEN Res(s, EBADF, NoOut)
    ELSE LET d == FdOf(s, c.dirfd) IN
    IF d.st = "std" THEN Res(s, EBADF, NoOut)
    ELSE IF c.path = "" /\ ~c.dot THEN Res(s, EINVAL, NoOut)
    \* a descriptor of a regular file in the place of a directory: its PATH is what the guest path is joined to; while that is still the
    \* file's name the host answers "not a directory" (once the name is gone or names something else: no statement)
    ELSE IF d.kind = "file" THEN Res(s, IF Exists(s, d.path) /\ s.fs[d.path].kind = "file" THEN ENOTDIR ELSE EUNSPEC, NoOut)
    ELSE
    LET w == IF c.walk THEN WalkOf(s, c, d) ELSE WOk(<<>>)
        p == IF c.walk THEN JoinSeq(IF c.wlast = "" THEN w.seq ELSE Append(w.seq, c.wlast))
             ELSE IF c.abs THEN c.path ELSE Join(d.path, c.path)
        \* the directory the last name lies in
        par == IF c.walk THEN JoinSeq(w.seq) ELSE Join(IF c.abs THEN "" ELSE d.path, c.parent)
        pseq == IF c.walk THEN (IF c.wlast = "" THEN w.seq ELSE Append(w.seq, c.wlast)) ELSE (IF c.abs THEN <<>> ELSE d.pseq) \o c.pseq
        isdot == c.dot \/ (c.walk /\ c.wlast = "")
        creat == c.oflags % 2 = 1
        dirf  == (c.oflags \div 2) % 2 = 1
        excl  == (c.oflags \div 4) % 2 = 1
        trunc == (c.oflags \div 8) % 2 = 1
        newfd == Len(s.fds)
        entry(kind, ino) == [st |-> "open", kind |-> kind, path |-> p, pseq |-> pseq, ino |-> ino, pos |-> Z8, app |-> c.app, rd |-> c.rd \/ ~c.wr, wr |-> c.wr]
    IN  \* a trailing slash demands a directory: on a regular file the host refuses (ENOTDIR; EISDIR when asked to create),
        \* on a missing name it cannot create a file; symbolic links are followed by the host (not modelled)
        \* O_CREAT together with O_DIRECTORY is refused outright by this host (Linux >= 6.4), whatever the name denotes
        IF creat /\ dirf THEN Res(s, EINVAL, NoOut)
        ELSE IF w.err # ESUCCESS THEN Res(s, w.err, NoOut)
        \* a path whose last component is "." (c.dot; c.path is the directory it denotes, "" being the descriptor's own):
        \* the directory itself, which must exist; it can be opened for reading only
        ELSE IF isdot THEN
            (IF ~IsDir(s, p) THEN Res(s, Missing(s, p), NoOut)
             ELSE IF creat /\ excl THEN Res(s, EEXIST, NoOut)
             ELSE IF c.wr \/ creat \/ trunc THEN Res(s, EISDIR, NoOut)
             ELSE Res([s EXCEPT !.fds = Append(@, entry("dir", 0))], ESUCCESS, [fd |-> newfd]))
        ELSE IF c.slash /\ Exists(s, p) /\ s.fs[p].kind = "link" THEN Res(s, EUNSPEC, NoOut)
        ELSE IF c.slash /\ Exists(s, p) /\ s.fs[p].kind = "file" THEN Res(s, IF creat THEN EISDIR ELSE ENOTDIR, NoOut)
        ELSE IF c.slash /\ ~Exists(s, p) /\ creat /\ IsDir(s, par) THEN Res(s, EISDIR, NoOut)
        ELSE IF Exists(s, p) THEN
            IF creat /\ excl THEN Res(s, EEXIST, NoOut)
            ELSE IF SelfLoop(s, p) THEN Res(s, ELOOP, NoOut)
            ELSE IF s.fs[p].kind = "link" THEN Res(s, EUNSPEC, NoOut)          \* symbolic links are followed by the host
            ELSE IF s.fs[p].kind = "dir" THEN
                (IF c.wr \/ creat \/ trunc THEN Res(s, EISDIR, NoOut)
                 ELSE Res([s EXCEPT !.fds = Append(@, entry("dir", 0))], ESUCCESS, [fd |-> newfd]))
            ELSE IF dirf THEN Res(s, ENOTDIR, NoOut)
            ELSE LET s2 == IF trunc THEN [s EXCEPT !.files[s.fs[p].ino] = EmptyFile] ELSE s
                 IN  Res([s2 EXCEPT !.fds = Append(@, entry("file", s.fs[p].ino))], ESUCCESS, [fd |-> newfd])
        ELSE IF ~creat THEN Res(s, Missing(s, par), NoOut)
        ELSE IF ~IsDir(s, par) THEN Res(s, Missing(s, par), NoOut)
        ELSE IF dirf THEN Res(s, EINVAL, NoOut)               \* O_CREAT | O_DIRECTORY: Linux refuses
        ELSE Res([s EXCEPT !.fs = SetF(@, p, FileNode(Len(s.files) + 1)), !.files = Append(@, EmptyFile),
                           !.fds = Append(@, entry("file", Len(s.files) + 1))], ESUCCESS, [fd |-> newfd])

\* the descriptor must denote an open regular file for data transfer
DataFd(s, fd) == Live(s, fd) /\ FdOf(s, fd).st = "open"
\* an open file whose name was unlinked or renamed away lives on: the descriptor holds the file, not the name

\* a positional offset with its top bit set is a negative file offset for the host: EINVAL, nothing transferred or moved
NegOff(c) == c.offset[8] >= 128
FdWrite(s, c, positional) ==
    IF ~DataFd(s, c.fd) THEN Res(s, EBADF, NoOut)
    ELSE LET d == FdOf(s, c.fd) IN
    \* (the offset is looked at before the access mode: the implementation seeks first)
    IF positional /\ NegOff(c) THEN Res(s, IF d.kind = "dir" THEN EUNSPEC ELSE EINVAL, NoOut)
    ELSE IF d.kind = "dir" \/ ~d.wr THEN Res(s, EBADF, NoOut)
    ELSE IF Concat(c.segs) = <<>> THEN Res(s, ESUCCESS, [n |-> 0])          \* nothing to write: nothing moves
    ELSE LET f == s.files[d.ino]
             data == Concat(c.segs)
             at == IF d.app THEN f.size ELSE IF positional THEN c.offset ELSE d.pos
             f2 == PutAt(f, at, data)
             pos2 == IF positional THEN d.pos ELSE Add(at, W8(Len(data)))
         IN  Res([s EXCEPT !.files[d.ino] = f2, !.fds[c.fd + 1].pos = pos2], ESUCCESS, [n |-> Len(data)])

FdRead(s, c, positional) ==
    IF ~DataFd(s, c.fd) THEN Res(s, EBADF, NoOut)
    ELSE LET d == FdOf(s, c.fd) IN
    IF positional /\ NegOff(c) THEN Res(s, IF d.kind = "dir" THEN EUNSPEC ELSE EINVAL, NoOut)
    ELSE IF ~d.rd THEN Res(s, EBADF, NoOut)
    ELSE IF d.kind = "dir" THEN Res(s, IF SumLens(c.lens) = 0 THEN EUNSPEC ELSE EISDIR, NoOut)
    ELSE LET f == s.files[d.ino]
             at == IF positional THEN c.offset ELSE d.pos
             n == Avail(f, at, SumLens(c.lens))
             data == ReadBytes(f, at, n)
             pos2 == IF positional THEN d.pos ELSE Add(at, W8(n))
         IN  Res([s EXCEPT !.fds[c.fd + 1].pos = pos2], ESUCCESS, [n |-> n, bufs |-> Scatter(data, c.lens)])

\* whence: 0 = start, 1 = current, 2 = end in preview1; unstable orders them current, end, start
Whence(abi, w) == IF abi = "p" THEN (CASE w = 0 -> "set" [] w = 1 -> "cur" [] w = 2 -> "end" [] OTHER -> "bad")
                  ELSE (CASE w = 0 -> "cur" [] w = 1 -> "end" [] w = 2 -> "set" [] OTHER -> "bad")
\* c.delta is a 64-bit two's complement word
FdSeek(s, c) ==
    LET wh == Whence(c.abi, c.whence) IN
    IF wh = "bad" THEN Res(s, EINVAL, NoOut)
    ELSE IF ~DataFd(s, c.fd) THEN Res(s, EBADF, NoOut)
    ELSE IF FdOf(s, c.fd).kind = "dir" THEN Res(s, EUNSPEC, NoOut)      \* seeking a directory stream: the host's business
    ELSE LET d == FdOf(s, c.fd)
             base == IF wh = "set" THEN Z8 ELSE IF wh = "cur" THEN d.pos ELSE (IF d.kind = "file" THEN s.files[d.ino].size ELSE Z8)
             target == Add(base, c.delta)
             \* negative result: base + delta < 0 in the integers (base < 2^63 always holds here)
             neg == SignBit(c.delta) = 1 /\ LtU(base, Neg(c.delta))
         IN  IF neg THEN Res(s, EINVAL, NoOut)
             ELSE Res([s EXCEPT !.fds[c.fd + 1].pos = target], ESUCCESS, [off |-> target])

FdTell(s, c) == FdSeek(s, [abi |-> "p", fd |-> c.fd, delta |-> Z8, whence |-> 1])

\* filetype 4 regular file, 3 directory; the other fields of the record are the host's business
FdFilestat(s, c) ==
    IF ~Live(s, c.fd) THEN Res(s, EBADF, NoOut)
    ELSE LET d == FdOf(s, c.fd) IN
    IF d.st = "std" THEN Res(s, ESUCCESS, [size |-> Z8, ftype |-> 2, skip |-> TRUE])
    ELSE IF d.kind = "dir" THEN Res(s, ESUCCESS, [size |-> Z8, ftype |-> 3, skip |-> TRUE])
    \* fstat describes the open file, whatever has happened to the name it was opened under
    ELSE Res(s, ESUCCESS, [size |-> s.files[d.ino].size, ftype |-> 4, skip |-> FALSE])

FdClose(s, c) ==
    IF ~Live(s, c.fd) THEN Res(s, EBADF, NoOut)
    ELSE Res([s EXCEPT !.fds[c.fd + 1].st = "closed"], ESUCCESS, NoOut)

\* a pre-opened directory has a prestat: [type 0 = directory, length of its path]; the standard streams have none;
\* what descriptors obtained from path_open answer is not specified here (w2c2 reports their path as well)
FdPrestat(s, c) ==
    IF ~Live(s, c.fd) \/ FdOf(s, c.fd).st = "std" THEN Res(s, EBADF, NoOut)
    ELSE IF FdOf(s, c.fd).st # "preopen" THEN Res(s, EUNSPEC, NoOut)
    ELSE Res(s, ESUCCESS, [preopen |-> TRUE])

\* fd_fdstat_get: file type (3 directory, 4 regular file) and the append flag (bit 0 of the flags); rights are not predicted
FdFdstat(s, c) ==
    IF ~Live(s, c.fd) THEN Res(s, EBADF, NoOut)
    ELSE LET d == FdOf(s, c.fd) IN
    IF d.st = "std" THEN Res(s, EUNSPEC, NoOut)
    ELSE IF d.st = "preopen" \/ d.kind = "dir" THEN Res(s, ESUCCESS, [ftype |-> 3, flags |-> 0])
    ELSE Res(s, ESUCCESS, [ftype |-> 4, flags |-> IF d.app THEN 1 ELSE 0])

\* fd_sync / fd_datasync: a descriptor from path_open is flushed; the pre-open has no native descriptor (EINVAL)
FdSync(s, c) ==
    IF ~Live(s, c.fd) THEN Res(s, EBADF, NoOut)
    ELSE LET d == FdOf(s, c.fd) IN
    IF d.st = "std" THEN Res(s, EUNSPEC, NoOut)
    ELSE IF d.st = "preopen" THEN Res(s, EINVAL, NoOut)
    ELSE Res(s, ESUCCESS, NoOut)

----------------------------------------------------------------------------
(* path operations (C14): resolve against the descriptor's path, then exactly one host operation *)
\* direct or indirect children of directory p.  Paths are strings: "is below p" is decided on the path lists the
\* scenario supplies (c.under = the paths of the tree that lie below the path the call names)
\* the tree after directory p (with all that lies below it) has become q; an (empty) directory that was at q is replaced
MoveTree(fs, p, q) ==
    LET moved == {k \in DOMAIN fs : k = p \/ Below(k, p)}
        NewName(k) == IF k = p THEN q ELSE q \o SubSeq(k, Len(p) + 1, Len(k))
    IN  [k \in ((DOMAIN fs \ moved) \ {q}) \cup {NewName(m) : m \in moved} |->
            IF \E m \in moved : NewName(m) = k THEN fs[CHOOSE m \in moved : NewName(m) = k] ELSE fs[k]]
ParentOf(c) == c.parent                       \* the resolved parent directory, "" for the sandbox root (supplied with the call)
HasChildren(s, p, under) == \E q \in DOMAIN s.fs : q \in under
PathOp(s, c) ==
    IF ~Live(s, c.dirfd) \/ (c.call = "rename" /\ ~Live(s, c.fd)) THEN Res(s, EBADF, NoOut)
    ELSE LET d == FdOf(s, c.dirfd) IN
    IF d.st = "std" \/ (c.call = "rename" /\ FdOf(s, c.fd).st = "std") THEN Res(s, EBADF, NoOut)
    ELSE IF c.path = "" /\ ~c.dot THEN Res(s, EINVAL, NoOut)
    ELSE IF d.kind = "file" THEN Res(s, EUNSPEC, NoOut)
    ELSE
    LET w == IF c.walk THEN WalkOf(s, c, d) ELSE WOk(<<>>)
        p == IF c.walk THEN JoinSeq(Append(w.seq, c.wlast)) ELSE Join(d.path, c.path)
        under == {c.under[j] : j \in DOMAIN c.under}
        pp == IF c.walk THEN JoinSeq(w.seq) ELSE Join(d.path, c.parent)
        parentOK == IsDir(s, pp)
    IN  IF c.call = "readlink" /\ c.buflen = 0 THEN Res(s, EUNSPEC, NoOut)          \* a zero-sized buffer: the host decides
        ELSE IF w.err # ESUCCESS THEN Res(s, w.err, NoOut)
        \* (walk mode is not used for rename, for a last component that is not a plain name, nor for removing non-empty directories)
        ELSE IF c.walk /\ (c.call = "rename" \/ c.wlast = "") THEN Res(s, EUNSPEC, NoOut)
        ELSE IF c.walk /\ c.call = "rmdir" /\ Exists(s, p) /\ s.fs[p].kind = "dir" /\ (\E q \in DOMAIN s.fs : Len(q) > Len(p) /\ SubSeq(q, 1, Len(p) + 1) = p \o "/") THEN Res(s, ENOTEMPTY, NoOut)
        \* a path whose last component is "." (with or without trailing slashes) names a directory THROUGH ITSELF: the host
        \* refuses to remove, replace or move an entry it is given in this form, and the answer differs from the one for
        \* the same directory named by a trailing slash (rmdir "d/" removes d, rmdir "d/." is EINVAL)
        ELSE IF c.dot /\ c.call # "rename" THEN
             (IF ~IsDir(s, p) THEN Res(s, Missing(s, p), NoOut)
              ELSE CASE c.call \in {"mkdir", "symlink"} -> Res(s, EEXIST, NoOut)
                     [] c.call = "rmdir" -> Res(s, EINVAL, NoOut)
                     [] c.call = "unlink" -> Res(s, EISDIR, NoOut)
                     [] c.call = "readlink" -> Res(s, EINVAL, NoOut)
                     [] c.call = "pathstat" -> Res(s, ESUCCESS, [size |-> Z8, ftype |-> 3, skip |-> TRUE]))
        ELSE IF c.call = "rename" /\ (c.dot \/ c.dot2) THEN
             LET d2 == FdOf(s, c.fd)  q == Join(d2.path, c.path2)
                 dstParentOK == IF c.dot2 THEN IsDir(s, q) ELSE IsDir(s, Join(d2.path, c.parent2))
             IN  IF d2.kind = "file" THEN Res(s, EUNSPEC, NoOut)
                 ELSE IF c.dot THEN (IF ~dstParentOK THEN Res(s, EUNSPEC, NoOut)         \* two errors apply: the host picks
                                     ELSE IF ~IsDir(s, p) THEN Res(s, Missing(s, p), NoOut)
                                     ELSE Res(s, EBUSY, NoOut))
                 \* (the host looks at the form of the last components before it looks the entries up: only the two
                 \* parents have to exist)
                 ELSE IF ~parentOK \/ c.slash THEN Res(s, EUNSPEC, NoOut)
                 ELSE IF ~IsDir(s, q) THEN Res(s, Missing(s, q), NoOut)
                 ELSE Res(s, EBUSY, NoOut)
        \* rename with a trailing slash on either name: ENOTDIR when an existing non-directory is renamed and the new
        \* parent exists; which of several applicable errors the host reports first is not specified here
        ELSE IF c.call = "rename" /\ (c.slash \/ c.slash2) THEN
             (IF Live(s, c.fd) /\ FdOf(s, c.fd).kind = "dir" /\ Exists(s, p) /\ s.fs[p].kind \in {"file", "link"}
                 /\ IsDir(s, Join(FdOf(s, c.fd).path, c.parent2))
                 /\ ~(c.slash /\ s.fs[p].kind = "link")
              THEN Res(s, ENOTDIR, NoOut) ELSE Res(s, EUNSPEC, NoOut))
        ELSE IF c.slash /\ Exists(s, p) /\ s.fs[p].kind = "link" THEN Res(s, EUNSPEC, NoOut)
        ELSE IF c.slash /\ Exists(s, p) /\ s.fs[p].kind = "file"
             THEN Res(s, IF c.call \in {"mkdir", "symlink"} THEN EEXIST ELSE ENOTDIR, NoOut)
        ELSE IF c.slash /\ ~Exists(s, p) /\ c.call = "symlink" THEN Res(s, Missing(s, pp), NoOut)
        ELSE
        CASE c.call = "mkdir" ->
               IF Exists(s, p) THEN Res(s, EEXIST, NoOut)
               ELSE IF ~parentOK THEN Res(s, Missing(s, pp), NoOut)
               ELSE Res([s EXCEPT !.fs = SetF(@, p, [kind |-> "dir"])], ESUCCESS, NoOut)
          [] c.call = "rmdir" ->
               IF ~Exists(s, p) THEN Res(s, Missing(s, pp), NoOut)
               ELSE IF s.fs[p].kind # "dir" THEN Res(s, ENOTDIR, NoOut)
               ELSE IF \E q \in DOMAIN s.fs : q \in under \/ Below(q, p) THEN Res(s, ENOTEMPTY, NoOut)
               ELSE Res([s EXCEPT !.fs = DelF(@, p)], ESUCCESS, NoOut)
          [] c.call = "unlink" ->
               IF ~Exists(s, p) THEN Res(s, Missing(s, pp), NoOut)
               ELSE IF s.fs[p].kind = "dir" THEN Res(s, EISDIR, NoOut)
               ELSE Res([s EXCEPT !.fs = DelF(@, p)], ESUCCESS, NoOut)
          [] c.call = "symlink" ->
               IF Exists(s, p) THEN Res(s, EEXIST, NoOut)
               ELSE IF ~parentOK THEN Res(s, Missing(s, pp), NoOut)
               ELSE Res([s EXCEPT !.fs = SetF(@, p, LinkNode(c))], ESUCCESS, NoOut)
          [] c.call = "readlink" ->
               IF c.buflen = 0 THEN Res(s, EUNSPEC, NoOut)              \* a zero-sized buffer: the host decides
               ELSE IF ~Exists(s, p) THEN Res(s, Missing(s, pp), NoOut)
               ELSE IF s.fs[p].kind # "link" THEN Res(s, EINVAL, NoOut)
               ELSE Res(s, ESUCCESS, [target |-> s.fs[p].target, buflen |-> c.buflen])
          [] c.call = "pathstat" ->
               IF ~Exists(s, p) THEN Res(s, Missing(s, pp), NoOut)
               ELSE IF s.fs[p].kind = "link" THEN Res(s, EUNSPEC, NoOut)
               ELSE IF s.fs[p].kind = "dir" THEN Res(s, ESUCCESS, [size |-> Z8, ftype |-> 3, skip |-> TRUE])
               ELSE Res(s, ESUCCESS, [size |-> FileAt(s, p).size, ftype |-> 4, skip |-> FALSE])
          [] c.call = "rename" ->
               LET d2 == FdOf(s, c.fd)  q == Join(d2.path, c.path2) IN
               IF d2.kind = "file" THEN Res(s, EUNSPEC, NoOut)
               \* (the host looks up both parent directories before it looks at either entry)
               ELSE IF ~parentOK THEN Res(s, Missing(s, pp), NoOut)
               ELSE IF ~IsDir(s, Join(d2.path, c.parent2)) THEN Res(s, Missing(s, Join(d2.path, c.parent2)), NoOut)
               ELSE IF ~Exists(s, p) THEN Res(s, ENOENT, NoOut)
               ELSE IF p = q THEN Res(s, ESUCCESS, NoOut)
               \* a directory moves with everything below it; it cannot move into itself, replaces only an empty directory,
               \* and never a file or a link.  Descriptors are not touched: a directory descriptor keeps the PATH it was
               \* opened under (C14: "resolves a relative guest path against the path of its directory descriptor"), which
               \* afterwards names nothing - or whatever is created there next
               ELSE IF s.fs[p].kind = "dir" THEN
                    (IF Below(q, p) THEN Res(s, EINVAL, NoOut)
                     ELSE IF Exists(s, q) /\ s.fs[q].kind # "dir" THEN Res(s, ENOTDIR, NoOut)
                     ELSE IF Exists(s, q) /\ (\E k \in DOMAIN s.fs : Below(k, q)) THEN Res(s, ENOTEMPTY, NoOut)
                     ELSE Res([s EXCEPT !.fs = MoveTree(@, p, q)], ESUCCESS, NoOut))
               \* (a file onto a directory it lies in: "is a directory" and "not empty" both apply, the host picks)
               ELSE IF Exists(s, q) /\ s.fs[q].kind = "dir" THEN Res(s, IF Below(p, q) THEN EUNSPEC ELSE EISDIR, NoOut)
               ELSE Res([s EXCEPT !.fs = SetF(DelF(@, p), q, s.fs[p])], ESUCCESS, NoOut)

Call(s, c) ==
    CASE c.call = "open"     -> PathOpen(s, c)
      [] c.call = "write"    -> FdWrite(s, c, FALSE)
      [] c.call = "pwrite"   -> FdWrite(s, c, TRUE)
      [] c.call = "read"     -> FdRead(s, c, FALSE)
      [] c.call = "pread"    -> FdRead(s, c, TRUE)
      [] c.call = "seek"     -> FdSeek(s, c)
      [] c.call = "tell"     -> FdTell(s, c)
      [] c.call = "filestat" -> FdFilestat(s, c)
      [] c.call = "close"    -> FdClose(s, c)
      [] c.call \in {"prestat", "prestatname"} -> FdPrestat(s, c)
      \* calls whose full meaning belongs to other properties: here only "closed or never issued => EBADF"
      [] c.call = "fdstat" -> FdFdstat(s, c)
      [] c.call \in {"sync", "datasync"} -> FdSync(s, c)
      [] c.call = "readdir" -> (IF ~Live(s, c.fd) THEN Res(s, EBADF, NoOut) ELSE Res(s, EUNSPEC, NoOut))
      [] c.call \in {"mkdir", "rmdir", "unlink", "readlink", "pathstat", "symlink", "rename"} -> PathOp(s, c)
      [] c.call = "mkfile"   -> Res([s EXCEPT !.fs = SetF(@, c.path, FileNode(Len(s.files) + 1)),
                                                 !.files = Append(@, PutAt(EmptyFile, Z8, c.bytes))], ESUCCESS, NoOut)   \* scenario setup
      [] c.call = "mklink"   -> Res([s EXCEPT !.fs = SetF(@, c.path, LinkNode(c))], ESUCCESS, NoOut)
      [] c.call = "mkdirs"   -> Res([s EXCEPT !.fs = SetF(@, c.path, [kind |-> "dir"])], ESUCCESS, NoOut)

----------------------------------------------------------------------------
(* host faults.  The error numbers of WASI (the enumeration `errno` of the specification, in its order) by the name of
   the POSIX error they stand for.  A call that the host lets down - the operation that carries it out fails with some
   error E although, as far as this model can see, it should have succeeded - returns the number of E, stores nothing
   in guest memory and changes neither the descriptor table nor (for the operations injected by the binder: the one
   host function that is the call) the files.  Calls that fail on their own are not combined with a fault. *)
WasiErrnoOf ==
    [E2BIG |-> 1, EACCES |-> 2, EADDRINUSE |-> 3, EADDRNOTAVAIL |-> 4, EAFNOSUPPORT |-> 5, EAGAIN |-> 6, EALREADY |-> 7, EBADF |-> 8,
     EBADMSG |-> 9, EBUSY |-> 10, ECANCELED |-> 11, ECHILD |-> 12, ECONNABORTED |-> 13, ECONNREFUSED |-> 14, ECONNRESET |-> 15,
     EDEADLK |-> 16, EDESTADDRREQ |-> 17, EDOM |-> 18, EDQUOT |-> 19, EEXIST |-> 20, EFAULT |-> 21, EFBIG |-> 22, EHOSTUNREACH |-> 23,
     EIDRM |-> 24, EILSEQ |-> 25, EINPROGRESS |-> 26, EINTR |-> 27, EINVAL |-> 28, EIO |-> 29, EISCONN |-> 30, EISDIR |-> 31, ELOOP |-> 32,
     EMFILE |-> 33, EMLINK |-> 34, EMSGSIZE |-> 35, EMULTIHOP |-> 36, ENAMETOOLONG |-> 37, ENETDOWN |-> 38, ENETRESET |-> 39,
     ENETUNREACH |-> 40, ENFILE |-> 41, ENOBUFS |-> 42, ENODEV |-> 43, ENOENT |-> 44, ENOEXEC |-> 45, ENOLCK |-> 46, ENOLINK |-> 47,
     ENOMEM |-> 48, ENOMSG |-> 49, ENOPROTOOPT |-> 50, ENOSPC |-> 51, ENOSYS |-> 52, ENOTCONN |-> 53, ENOTDIR |-> 54, ENOTEMPTY |-> 55,
     ENOTRECOVERABLE |-> 56, ENOTSOCK |-> 57, ENOTSUP |-> 58, ENOTTY |-> 59, ENXIO |-> 60, EOVERFLOW |-> 61, EOWNERDEAD |-> 62,
     EPERM |-> 63, EPIPE |-> 64, EPROTO |-> 65, EPROTONOSUPPORT |-> 66, EPROTOTYPE |-> 67, ERANGE |-> 68, EROFS |-> 69, ESPIPE |-> 70,
     ESRCH |-> 71, ESTALE |-> 72, ETIMEDOUT |-> 73, ETXTBSY |-> 74, EXDEV |-> 75]
ErrnoTableOK == /\ \A a, b \in DOMAIN WasiErrnoOf : WasiErrnoOf[a] = WasiErrnoOf[b] => a = b
                /\ {WasiErrnoOf[a] : a \in DOMAIN WasiErrnoOf} = 1..75
                /\ WasiErrnoOf.EBADF = EBADF /\ WasiErrnoOf.EEXIST = EEXIST /\ WasiErrnoOf.EINVAL = EINVAL /\ WasiErrnoOf.EISDIR = EISDIR
                /\ WasiErrnoOf.ENOENT = ENOENT /\ WasiErrnoOf.ENOTDIR = ENOTDIR /\ WasiErrnoOf.ENOTEMPTY = ENOTEMPTY
                /\ WasiErrnoOf.ELOOP = ELOOP /\ WasiErrnoOf.EBUSY = EBUSY
CallWithFault(s, c) ==
    LET r0 == Call(s, c)
    IN  IF c.fault = "" THEN r0
        ELSE IF r0.errno = ESUCCESS THEN Res(s, WasiErrnoOf[c.fault], NoOut)
        ELSE Res(s, EUNSPEC, NoOut)

----------------------------------------------------------------------------
(* invariants of the model state *)
FsOK(s) == /\ \A n \in 1..Len(s.files) : \A o \in DOMAIN s.files[n].data : LtU(o, s.files[n].size)
           \* every name of a file denotes an existing file, every open file descriptor holds one, and (no hard links)
           \* no file has two names
           /\ \A p \in DOMAIN s.fs : s.fs[p].kind = "file" => s.fs[p].ino \in 1..Len(s.files)
           /\ \A p, q \in DOMAIN s.fs : s.fs[p].kind = "file" /\ s.fs[q].kind = "file" /\ s.fs[p].ino = s.fs[q].ino => p = q
           /\ \A k \in 1..Len(s.fds) : s.fds[k].st = "open" /\ s.fds[k].kind = "file" => s.fds[k].ino \in 1..Len(s.files)
\* descriptors 0-2 are the standard streams until they are closed; numbers are never reused
FdsOK(s) == /\ Len(s.fds) >= 4 /\ \A k \in 1..3 : s.fds[k].st \in {"std", "closed"}


----------------------------------------------------------------------------
(* replay of generated histories: INFILE lines [id, calls]; OUTFILE lines [id, k, errno, out, fs] *)
Hist == ndJsonDeserialize(IOEnv.INFILE)
VARIABLES h, k, st
Init == h = 1 /\ k = 0 /\ st = Init0 /\ TLCSet(1, <<>>)
FsOut(s) == LET ps == DOMAIN s.fs
                RECURSIVE Sq(_)
                Sq(P) == IF P = {} THEN <<>> ELSE LET p == CHOOSE p \in P : TRUE IN
                    <<IF s.fs[p].kind = "dir" THEN [path |-> p, kind |-> "dir", size |-> Z8, data |-> <<>>]
                      ELSE IF s.fs[p].kind = "link" THEN [path |-> p, kind |-> "link", size |-> Z8, data |-> <<>>]
                      ELSE [path |-> p, kind |-> "file", size |-> FileAt(s, p).size,
                            data |-> LET D == DOMAIN FileAt(s, p).data
                                         RECURSIVE Dq(_)
                                         Dq(O) == IF O = {} THEN <<>> ELSE LET o == CHOOSE o \in O : TRUE IN <<<<o, FileAt(s, p).data[o]>>>> \o Dq(O \ {o})
                                     IN Dq({o \in D : FileAt(s, p).data[o] # 0})]>> \o Sq(P \ {p})
            IN Sq(ps)
Next == /\ h <= Len(Hist)
        /\ IF k < Len(Hist[h].calls)
           THEN LET r == CallWithFault(st, Hist[h].calls[k + 1]) IN
                /\ st' = r.s /\ k' = k + 1 /\ h' = h
                /\ TLCSet(1, Append(TLCGet(1), [id |-> Hist[h].id, k |-> k + 1, errno |-> r.errno, out |-> r.out, fs |-> FsOut(r.s)]))
           ELSE h' = h + 1 /\ k' = 0 /\ st' = Init0
StateOK == FsOK(st) /\ FdsOK(st) /\ ErrnoTableOK
Done == TLCGet("level") >= 0 /\ ndJsonSerialize(IOEnv.OUTFILE, TLCGet(1))
=============================================================================
