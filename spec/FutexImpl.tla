------------------------------ MODULE FutexImpl ------------------------------
(***************************************************************************)
(* futex.c as it is written (C17): one action per critical section or      *)
(* blocking point.                                                         *)
(*                                                                         *)
(*  wait   : W_Enter  lock; compare the cell; on mismatch unlock, result 1 *)
(*                    else allocate the Wait record, get or insert the map *)
(*                    node of the address, prepend to its list, and go to  *)
(*                    sleep on the record's condition variable (releasing  *)
(*                    the mutex) - one critical section, so one action.    *)
(*           Env_*    while asleep the thread may be signalled, woken      *)
(*                    spuriously, or (finite timeout) time out: scheduler  *)
(*                    choices.                                             *)
(*           W_Resume reacquire the mutex; loop test: status Notified, or  *)
(*                    the timed wait failed -> leave; otherwise sleep      *)
(*                    again.  On leaving: unlink, remove the map node if   *)
(*                    the list became empty, free the record, unlock.      *)
(*           A wait whose allocations fail (Prog[t].fail) leaves W_Enter   *)
(*           through the trap path: everything undone, result 3.           *)
(*  notify : N_Do     lock; look the address up; walk the list marking     *)
(*                    Waiting records Notified and signalling them, up to  *)
(*                    count; unlock (one critical section).                *)
(*                                                                         *)
(* The map has B buckets, bucket(a) = a % B, each a list of nodes, so      *)
(* different addresses may share a bucket.  Heap liveness of Wait records  *)
(* and map nodes is tracked by ghost variables; every dereference asserts  *)
(* liveness (NoAccessToFreed).                                             *)
(*                                                                         *)
(* Programs: Prog[t] is the single operation thread t performs.            *)
(* TLC checks the invariants below and that this specification implements  *)
(* FutexAbs under the refinement mapping at the end.                       *)
(***************************************************************************)
EXTENDS Naturals, Integers, FiniteSets, Sequences, TLC

CONSTANTS Threads, Prog, B, SpuriousBudget
\* Prog[t] = [op |-> "wait32"|"notify"|"store", a |-> address, x |-> expected/count/value, timed |-> BOOLEAN,
\*            fail |-> BOOLEAN (a wait for which the host cannot allocate memory)]

VARIABLES mutex,     \* 0 or the owning thread
          mcell,     \* address -> value
          pc,        \* thread -> "start" | "called" | "asleep" | "awake" | "ret" | "done"
          why,       \* thread -> "" | "signal" | "spurious" | "timeout"   (how the sleeper was woken)
          buckets,   \* bucket index -> sequence of addresses that have a map node (head first)
          wlist,     \* address -> sequence of waiter threads (head first); defined iff the node exists
          wstat,     \* thread -> "none" | "Waiting" | "Notified"     (Wait record's status field)
          wlive,     \* thread -> BOOLEAN   (Wait record allocated and not freed)
          sig,       \* thread -> BOOLEAN   (a signal is pending on the record's condition variable)
          spur,      \* spurious wake-ups still allowed
          ret,       \* thread -> result
          bad        \* TRUE once freed memory was touched
vars == <<mutex, mcell, pc, why, buckets, wlist, wstat, wlive, sig, spur, ret, bad>>

Addrs == {Prog[t].a : t \in Threads}
Bucket(a) == a % B
HasNode(a) == a \in DOMAIN wlist
MCell(a) == IF a \in DOMAIN mcell THEN mcell[a] ELSE 0
SetF(f, k, v) == [y \in DOMAIN f \cup {k} |-> IF y = k THEN v ELSE f[y]]
DelF(f, k) == [y \in DOMAIN f \ {k} |-> f[y]]
Remove(s, e) == SelectSeq(s, LAMBDA y : y # e)

Init == /\ mutex = 0 /\ mcell = <<>> /\ pc = [t \in Threads |-> "start"] /\ why = [t \in Threads |-> ""]
        /\ buckets = [b \in 0..(B - 1) |-> <<>>] /\ wlist = <<>>
        /\ wstat = [t \in Threads |-> "none"] /\ wlive = [t \in Threads |-> FALSE]
        /\ sig = [t \in Threads |-> FALSE] /\ spur = SpuriousBudget
        /\ ret = [t \in Threads |-> 0] /\ bad = FALSE

\* the API call begins (separate from the first critical section so that Call/Ret order is observable)
Begin(t) == /\ pc[t] = "start" /\ pc' = [pc EXCEPT ![t] = "called"]
            /\ UNCHANGED <<mutex, mcell, why, buckets, wlist, wstat, wlive, sig, spur, ret, bad>>

W_Enter(t) ==
    LET a == Prog[t].a IN
    /\ pc[t] = "called" /\ Prog[t].op = "wait32" /\ mutex = 0
    /\ IF MCell(a) # Prog[t].x
       THEN /\ pc' = [pc EXCEPT ![t] = "ret"] /\ ret' = [ret EXCEPT ![t] = 1]
            /\ UNCHANGED <<mutex, mcell, why, buckets, wlist, wstat, wlive, sig, spur, bad>>
       ELSE IF Prog[t].fail
       THEN \* calloc (wait record, map, map node) or the condition variable's initialisation failed: whatever was allocated is
            \* freed again, the mutex is released and the call traps - no list, node or other waiter is touched
            /\ pc' = [pc EXCEPT ![t] = "ret"] /\ ret' = [ret EXCEPT ![t] = 3]
            /\ UNCHANGED <<mutex, mcell, why, buckets, wlist, wstat, wlive, sig, spur, bad>>
       ELSE /\ wlive' = [wlive EXCEPT ![t] = TRUE]
            /\ wstat' = [wstat EXCEPT ![t] = "Waiting"]
            /\ IF HasNode(a)
               THEN /\ wlist' = [wlist EXCEPT ![a] = <<t>> \o @] /\ UNCHANGED buckets
               ELSE /\ wlist' = SetF(wlist, a, <<t>>)
                    /\ buckets' = [buckets EXCEPT ![Bucket(a)] = <<a>> \o @]
            /\ pc' = [pc EXCEPT ![t] = "asleep"]          \* cond wait releases the mutex
            /\ sig' = [sig EXCEPT ![t] = FALSE]
            /\ UNCHANGED <<mutex, mcell, why, spur, ret, bad>>

Env_Signal(t)   == /\ pc[t] = "asleep" /\ sig[t]
                   /\ pc' = [pc EXCEPT ![t] = "awake"] /\ why' = [why EXCEPT ![t] = "signal"]
                   /\ sig' = [sig EXCEPT ![t] = FALSE]
                   /\ UNCHANGED <<mutex, mcell, buckets, wlist, wstat, wlive, spur, ret, bad>>
Env_Spurious(t) == /\ pc[t] = "asleep" /\ ~sig[t] /\ spur > 0
                   /\ pc' = [pc EXCEPT ![t] = "awake"] /\ why' = [why EXCEPT ![t] = "spurious"]
                   /\ spur' = spur - 1
                   /\ UNCHANGED <<mutex, mcell, buckets, wlist, wstat, wlive, sig, ret, bad>>
Env_Timeout(t)  == /\ pc[t] = "asleep" /\ Prog[t].timed
                   /\ pc' = [pc EXCEPT ![t] = "awake"] /\ why' = [why EXCEPT ![t] = "timeout"]
                   /\ UNCHANGED <<mutex, mcell, buckets, wlist, wstat, wlive, sig, spur, ret, bad>>

W_Resume(t) ==
    LET a == Prog[t].a
        leave == why[t] = "timeout" \/ wstat[t] = "Notified"
        l2 == Remove(wlist[a], t)
    IN
    /\ pc[t] = "awake" /\ mutex = 0
    /\ IF ~leave
       THEN /\ pc' = [pc EXCEPT ![t] = "asleep"] /\ why' = [why EXCEPT ![t] = ""]
            /\ UNCHANGED <<mutex, mcell, buckets, wlist, wstat, wlive, sig, spur, ret, bad>>
       ELSE /\ bad' = (bad \/ ~wlive[t] \/ ~HasNode(a))
            /\ ret' = [ret EXCEPT ![t] = IF wstat[t] = "Waiting" THEN 2 ELSE 0]
            /\ IF l2 = <<>>
               THEN /\ wlist' = DelF(wlist, a)
                    /\ buckets' = [buckets EXCEPT ![Bucket(a)] = Remove(@, a)]
               ELSE /\ wlist' = [wlist EXCEPT ![a] = l2] /\ UNCHANGED buckets
            /\ wlive' = [wlive EXCEPT ![t] = FALSE]
            /\ wstat' = [wstat EXCEPT ![t] = "none"]
            /\ pc' = [pc EXCEPT ![t] = "ret"] /\ why' = [why EXCEPT ![t] = ""]
            /\ UNCHANGED <<mutex, mcell, sig, spur>>

\* the waiters a walk over list s marks, given the count: the first n Waiting ones in list order
RECURSIVE Marked(_, _)
Marked(s, n) ==
    IF s = <<>> \/ n = 0 THEN {}
    ELSE IF wstat[Head(s)] = "Waiting" THEN {Head(s)} \cup Marked(Tail(s), n - 1)
    ELSE Marked(Tail(s), n)

N_Do(t) ==
    LET a == Prog[t].a IN
    /\ pc[t] = "called" /\ Prog[t].op = "notify" /\ mutex = 0
    /\ IF ~HasNode(a)
       THEN /\ ret' = [ret EXCEPT ![t] = 0]
            /\ UNCHANGED <<wstat, sig, bad>>
       ELSE LET M == Marked(wlist[a], Prog[t].x) IN
            /\ bad' = (bad \/ \E w \in {wlist[a][i] : i \in 1..Len(wlist[a])} : ~wlive[w])
            /\ wstat' = [w \in Threads |-> IF w \in M THEN "Notified" ELSE wstat[w]]
            /\ sig' = [w \in Threads |-> IF w \in M THEN TRUE ELSE sig[w]]
            /\ ret' = [ret EXCEPT ![t] = Cardinality(M)]
    /\ pc' = [pc EXCEPT ![t] = "ret"]
    /\ UNCHANGED <<mutex, mcell, why, buckets, wlist, wlive, spur>>

S_Do(t) == /\ pc[t] = "called" /\ Prog[t].op = "store"
           /\ mcell' = SetF(mcell, Prog[t].a, Prog[t].x)
           /\ pc' = [pc EXCEPT ![t] = "ret"]
           /\ UNCHANGED <<mutex, why, buckets, wlist, wstat, wlive, sig, spur, ret, bad>>

Return(t) == /\ pc[t] = "ret" /\ pc' = [pc EXCEPT ![t] = "done"]
             /\ UNCHANGED <<mutex, mcell, why, buckets, wlist, wstat, wlive, sig, spur, ret, bad>>

Next == \E t \in Threads : Begin(t) \/ W_Enter(t) \/ Env_Signal(t) \/ Env_Spurious(t) \/ Env_Timeout(t)
                            \/ W_Resume(t) \/ N_Do(t) \/ S_Do(t) \/ Return(t)
Spec == Init /\ [][Next]_vars
FairSpec == Spec /\ \A t \in Threads : WF_vars(Begin(t) \/ W_Enter(t) \/ Env_Signal(t) \/ Env_Timeout(t)
                                                 \/ W_Resume(t) \/ N_Do(t) \/ S_Do(t) \/ Return(t))

----------------------------------------------------------------------------
(* invariants *)
NoAccessToFreed == ~bad
ListsConsistent ==
    /\ \A a \in DOMAIN wlist : wlist[a] # <<>> /\ \A i \in 1..Len(wlist[a]) : wlive[wlist[a][i]] /\ Prog[wlist[a][i]].a = a
    /\ \A b \in 0..(B - 1) : \A i \in 1..Len(buckets[b]) : HasNode(buckets[b][i]) /\ Bucket(buckets[b][i]) = b
    /\ \A a \in DOMAIN wlist : \E i \in 1..Len(buckets[Bucket(a)]) : buckets[Bucket(a)][i] = a
    /\ \A t \in Threads : wlive[t] <=> (HasNode(Prog[t].a) /\ \E i \in 1..Len(wlist[Prog[t].a]) : wlist[Prog[t].a][i] = t)
\* a signalled or notified waiter is never left asleep for ever: if it is Notified it has a pending signal or is awake
NoLostWakeup == \A t \in Threads : (wstat[t] = "Notified" /\ pc[t] = "asleep") => sig[t]
ReturnCodes == \A t \in Threads : pc[t] \in {"ret", "done"} =>
                   IF Prog[t].op = "wait32" THEN ret[t] \in {0, 1, 2, 3} /\ (ret[t] = 2 => Prog[t].timed) /\ (ret[t] = 3 <=> (Prog[t].fail /\ ret[t] # 1))
                   ELSE IF Prog[t].op = "notify" THEN ret[t] <= Prog[t].x ELSE TRUE
\* the only way to be stuck: untimed waiters nobody can wake any more
DeadlockOK == (~ENABLED Next) => \A t \in Threads : pc[t] = "done" \/ (pc[t] = "asleep" /\ ~Prog[t].timed /\ wstat[t] = "Waiting")
\* every finite-timeout configuration terminates under fairness
Termination == (\A t \in Threads : Prog[t].op = "wait32" => Prog[t].timed) => <>(\A t \in Threads : pc[t] = "done")

----------------------------------------------------------------------------
(* refinement: FutexImpl implements FutexAbs *)
absTs == [t \in Threads |->
    LET p == Prog[t]
        base == [st |-> "idle", op |-> p.op, a |-> p.a, x |-> p.x, timed |-> p.timed, res |-> 0]
    IN  CASE pc[t] \in {"start", "done"} -> [st |-> "idle", op |-> "", a |-> 0, x |-> 0, timed |-> FALSE, res |-> 0]
          [] pc[t] = "called" -> [base EXCEPT !.st = "called"]
          [] pc[t] \in {"asleep", "awake"} -> IF wstat[t] = "Notified" THEN [base EXCEPT !.st = "ready", !.res = 0]
                                              ELSE [base EXCEPT !.st = "blocked"]
          [] pc[t] = "ret" -> [base EXCEPT !.st = "ready", !.res = ret[t]]]
absWaiting == [a \in {x \in Addrs : \E t \in Threads : Prog[t].a = x /\ pc[t] \in {"asleep", "awake"} /\ wstat[t] = "Waiting"} |->
                  {t \in Threads : Prog[t].a = a /\ pc[t] \in {"asleep", "awake"} /\ wstat[t] = "Waiting"}]
Abs == INSTANCE FutexAbs WITH cell <- mcell, waiting <- absWaiting, ts <- absTs

\* each implementation step is an abstract step (or a stuttering step) under the mapping
AbsStep == \/ UNCHANGED <<absTs, absWaiting, mcell>>
           \/ \E t \in Threads : \/ Abs!Call(t, Prog[t].op, Prog[t].a, Prog[t].x, Prog[t].timed)
                                 \/ Abs!WaitCheck(t) \/ Abs!WaitFail(t) \/ Abs!Timeout(t) \/ Abs!StoreDo(t)
                                 \/ \E W \in SUBSET Threads : Abs!NotifyDo(t, W)
                                 \/ \E r \in 0..Cardinality(Threads) : Abs!Ret(t, r)
Refines == [][AbsStep]_vars
=============================================================================
