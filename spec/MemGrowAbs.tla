----------------------------- MODULE MemGrowAbs -----------------------------
(***************************************************************************)
(* Growing a shared memory, at API granularity (C18).  memory.grow is one  *)
(* atomic step between its call and its return: it succeeds iff the new    *)
(* size does not exceed the maximum, returns the old size and adds delta;  *)
(* otherwise it returns -1 (written Fail) and changes nothing.             *)
(* memory.size is an atomic read.                                          *)
(***************************************************************************)
EXTENDS Naturals, Integers, FiniteSets, Sequences
CONSTANTS Threads, MaxPages, InitPages
VARIABLES pages, gs       \* gs: thread -> [st, op, d, res]
gvars == <<pages, gs>>
Fail == 0 - 1
GIdle == [st |-> "idle", op |-> "", d |-> 0, res |-> 0]
GInit == pages = InitPages /\ gs = [t \in Threads |-> GIdle]
GCall(t, op, d) == /\ gs[t].st = "idle"
                   /\ gs' = [gs EXCEPT ![t] = [st |-> "called", op |-> op, d |-> d, res |-> 0]]
                   /\ UNCHANGED pages
GrowDo(t) == /\ gs[t].st = "called" /\ gs[t].op = "grow"
             /\ IF pages + gs[t].d <= MaxPages
                THEN /\ pages' = pages + gs[t].d /\ gs' = [gs EXCEPT ![t].st = "ready", ![t].res = pages]
                ELSE /\ UNCHANGED pages /\ gs' = [gs EXCEPT ![t].st = "ready", ![t].res = Fail]
SizeDo(t) == /\ gs[t].st = "called" /\ gs[t].op = "size"
             /\ gs' = [gs EXCEPT ![t].st = "ready", ![t].res = pages] /\ UNCHANGED pages
GRet(t, r) == /\ gs[t].st = "ready" /\ gs[t].res = r
              /\ gs' = [gs EXCEPT ![t] = GIdle] /\ UNCHANGED pages
GInternal == \E t \in Threads : GrowDo(t) \/ SizeDo(t)
Bounded == pages <= MaxPages /\ pages >= InitPages
=============================================================================
