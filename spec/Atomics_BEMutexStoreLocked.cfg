CONSTANTS Threads <- Threads3
 Prog <- Prog3
 Variant = "BEMutexStoreLocked"
SPECIFICATION Spec
INVARIANT AtomicRMW
CHECK_DEADLOCK FALSE
