INIT Init
NEXT Next
INVARIANTS TypeOK Collect
POSTCONDITION Flush
CHECK_DEADLOCK FALSE
