INIT Init
NEXT Next
