CONSTANT LB = 8
INIT TInit
NEXT TNext
INVARIANT Partition
CHECK_DEADLOCK FALSE
