------------------------------- MODULE Float -------------------------------
(***************************************************************************)
(* IEEE-754 binary floating point, round-to-nearest-even, as WebAssembly   *)
(* uses it, on the limb words of Word.tla.  Every arithmetic result is     *)
(* computed exactly in a wide integer (significand * 2^q) and rounded once *)
(* by RoundPack, so correctness of +,-,*,/,sqrt reduces to correctness of  *)
(* the integer operators (self-checked in WordCheck) and of RoundPack      *)
(* (self-checked on a toy format in FloatCheck, and on the WebAssembly     *)
(* spec-suite vectors shipped in the repository).                          *)
(*                                                                         *)
(* A format is [k: limbs of the encoding, eb: exponent bits, mb: fraction  *)
(* bits, bias].  Results of operators are records [b |-> encoding,         *)
(* nan |-> BOOLEAN]; nan = TRUE means "some NaN" (the specification does   *)
(* not fix sign/payload of arithmetic NaNs); b then holds the canonical    *)
(* NaN only as a placeholder.                                              *)
(***************************************************************************)
EXTENDS Word

F32 == [k |-> 32 \div LB, eb |-> 8,  mb |-> 23, bias |-> 127]
F64 == [k |-> 64 \div LB, eb |-> 11, mb |-> 52, bias |-> 1023]

\* working width in limbs: room for 2*(mb+1) product bits plus guard bits
WL(fmt) == (2 * fmt.mb + 24 + LB - 1) \div LB
WBits(fmt) == WL(fmt) * LB

MaxI(x, y) == IF x > y THEN x ELSE y
MinI(x, y) == IF x < y THEN x ELSE y

PadBits(bs, n) == bs \o T([i \in 1..(n - Len(bs)) |-> 0])
BitLen(w) == Width(w) - ClzN(Bits(w), Width(w))
ShlN(w, n) == FromBits(ShlBits(Bits(w), n))
ShrN(w, n) == FromBits(ShrUBits(Bits(w), n))
RECURSIVE AnyBit(_, _, _)
AnyBit(bs, lo, hi) ==            \* 1 iff some bit of bs[lo..hi] is set (clipped to the sequence)
    IF lo > hi \/ lo > Len(bs) THEN 0 ELSE IF bs[lo] = 1 THEN 1 ELSE AnyBit(bs, lo + 1, hi)
One(K) == OfNat(1, K)

ExpAllOnes(fmt) == 2 ^ fmt.eb - 1
EMin(fmt) == 1 - fmt.bias
EMax(fmt) == fmt.bias

----------------------------------------------------------------------------
(* encodings *)

SignMask(fmt) == MinS(fmt.k)
WithSign(fmt, s, w) == IF s = 1 THEN WOr(w, SignMask(fmt)) ELSE w
ClearSign(fmt, w) == WAnd(w, MaxS(fmt.k))
FZero(fmt, s) == WithSign(fmt, s, Zero(fmt.k))
FInf(fmt, s) == WithSign(fmt, s, Wrap(ShlN(OfNat(ExpAllOnes(fmt), fmt.k + 1), fmt.mb), fmt.k))
FCanonNaN(fmt) == WOr(FInf(fmt, 0), Wrap(ShlN(One(fmt.k + 1), fmt.mb - 1), fmt.k))

R(b) == [b |-> b, nan |-> FALSE]
RNaN(fmt) == [b |-> FCanonNaN(fmt), nan |-> TRUE]

Unp(fmt, w) ==
    LET bs == Bits(w)
        e  == LimbOf(bs, fmt.mb, fmt.eb)
        mz == AnyBit(bs, 1, fmt.mb) = 0
    IN  [s   |-> bs[Len(bs)],
         e   |-> e,
         cls |-> IF e = ExpAllOnes(fmt) THEN (IF mz THEN "inf" ELSE "nan")
                 ELSE IF e = 0 THEN (IF mz THEN "zero" ELSE "sub") ELSE "norm",
         sig |-> FromBits(PadBits(SubSeq(bs, 1, fmt.mb) \o <<IF e = 0 THEN 0 ELSE 1>>, WBits(fmt))),
         q   |-> (IF e = 0 THEN 1 ELSE e) - fmt.bias - fmt.mb]

IsNaN(fmt, w) == Unp(fmt, w).cls = "nan"

----------------------------------------------------------------------------
(* the single rounding step: value = sig * 2^q (plus an epsilon if sticky = 1,
   in which case the caller guarantees at least 2 bits below the rounding point) *)

RoundPack(fmt, s, sig, q, sticky) ==
    IF IsZero(sig) /\ sticky = 0 THEN FZero(fmt, s)
    ELSE
    LET bs  == Bits(sig)
        n   == Width(sig) - ClzN(bs, Width(sig))
        E   == q + n - 1                                   \* exponent of the leading bit
        qt  == MaxI(E - fmt.mb, EMin(fmt) - fmt.mb)        \* quantum of the result
        sh  == qt - q
        m0  == IF sh <= 0 THEN ShlBits(bs, 0 - sh) ELSE ShrUBits(bs, sh)
        guard == IF sh >= 1 /\ sh <= Len(bs) THEN bs[sh] ELSE 0
        rest  == IF AnyBit(bs, 1, sh - 1) = 1 \/ sticky = 1 THEN 1 ELSE 0
        up  == guard = 1 /\ (rest = 1 \/ m0[1] = 1)
        m   == IF up THEN Add(FromBits(m0), One(Len(sig))) ELSE FromBits(m0)
        be  == IF E >= EMin(fmt) THEN E + fmt.bias ELSE 0  \* biased exponent before rounding
        base == IF be = 0 THEN Zero(Len(sig)) ELSE ShlN(OfNat(be - 1, Len(sig)), fmt.mb)
        enc == Add(base, m)                                \* hidden bit / carry bump the exponent
        ef  == LimbOf(Bits(enc), fmt.mb, fmt.eb + 1)
    IN  IF E > EMax(fmt) \/ ef >= ExpAllOnes(fmt) THEN FInf(fmt, s)
        ELSE WithSign(fmt, s, Wrap(enc, fmt.k))

----------------------------------------------------------------------------
(* comparison of non-NaN encodings *)

MagLt(fmt, a, b) == LtU(ClearSign(fmt, a), ClearSign(fmt, b))
BothZero(fmt, a, b) == IsZero(ClearSign(fmt, a)) /\ IsZero(ClearSign(fmt, b))
FLtNN(fmt, a, b) ==
    LET sa == SignBit(a) sb == SignBit(b)
    IN  IF BothZero(fmt, a, b) THEN FALSE
        ELSE IF sa # sb THEN sa = 1
        ELSE IF sa = 0 THEN MagLt(fmt, a, b) ELSE MagLt(fmt, b, a)
FEqNN(fmt, a, b) == a = b \/ BothZero(fmt, a, b)

FRel(fmt, o, a, b) ==
    IF IsNaN(fmt, a) \/ IsNaN(fmt, b) THEN o = "ne"
    ELSE CASE o = "eq" -> FEqNN(fmt, a, b)
           [] o = "ne" -> ~FEqNN(fmt, a, b)
           [] o = "lt" -> FLtNN(fmt, a, b)
           [] o = "gt" -> FLtNN(fmt, b, a)
           [] o = "le" -> FLtNN(fmt, a, b) \/ FEqNN(fmt, a, b)
           [] o = "ge" -> FLtNN(fmt, b, a) \/ FEqNN(fmt, a, b)

----------------------------------------------------------------------------
(* addition / subtraction *)

\* shift right by n with the lost bits or-ed into bit 1 ("jamming")
ShrJam(w, n) ==
    LET bs == Bits(w)
        lost == AnyBit(bs, 1, n)
        r == ShrUBits(bs, n)
    IN  FromBits(IF lost = 1 THEN [r EXCEPT ![1] = 1] ELSE r)

\* ua, ub unpacked finite values; sb = effective sign of b
AddFinite(fmt, ua, ub, sb) ==
    LET A  == ShlN(ua.sig, 3)
        Bw == ShlN(ub.sig, 3)
        d  == ua.q - ub.q
        qq == MaxI(ua.q, ub.q) - 3
        A2 == IF d >= 0 THEN A ELSE ShrJam(A, 0 - d)
        B2 == IF d >= 0 THEN ShrJam(Bw, d) ELSE Bw
    IN  IF ua.s = sb THEN
            LET sum == Add(A2, B2)
            IN  IF IsZero(sum) THEN FZero(fmt, ua.s) ELSE RoundPack(fmt, ua.s, sum, qq, 0)
        ELSE IF A2 = B2 THEN FZero(fmt, 0)                 \* x + (-x) = +0 under RNE
        ELSE IF LtU(B2, A2) THEN RoundPack(fmt, ua.s, Sub(A2, B2), qq, 0)
        ELSE RoundPack(fmt, sb, Sub(B2, A2), qq, 0)

FAddSub(fmt, a, b, negb) ==
    LET ua == Unp(fmt, a)  ub == Unp(fmt, b)
        sb == IF negb THEN 1 - ub.s ELSE ub.s
    IN  IF ua.cls = "nan" \/ ub.cls = "nan" THEN RNaN(fmt)
        ELSE IF ua.cls = "inf" THEN
            (IF ub.cls = "inf" /\ sb # ua.s THEN RNaN(fmt) ELSE R(FInf(fmt, ua.s)))
        ELSE IF ub.cls = "inf" THEN R(FInf(fmt, sb))
        ELSE R(AddFinite(fmt, ua, ub, sb))

----------------------------------------------------------------------------
(* multiplication, division, square root *)

Xor01(x, y) == (x + y) % 2

FMul(fmt, a, b) ==
    LET ua == Unp(fmt, a)  ub == Unp(fmt, b)  s == Xor01(ua.s, ub.s)
    IN  IF ua.cls = "nan" \/ ub.cls = "nan" THEN RNaN(fmt)
        ELSE IF ua.cls = "inf" \/ ub.cls = "inf" THEN
            (IF ua.cls = "zero" \/ ub.cls = "zero" THEN RNaN(fmt) ELSE R(FInf(fmt, s)))
        ELSE IF ua.cls = "zero" \/ ub.cls = "zero" THEN R(FZero(fmt, s))
        ELSE R(RoundPack(fmt, s, Mul(ua.sig, ub.sig), ua.q + ub.q, 0))

\* normalise a non-zero significand to exactly mb+1 bits
Norm(fmt, u) ==
    LET sa == fmt.mb + 1 - BitLen(u.sig)
    IN  [sig |-> ShlN(u.sig, sa), q |-> u.q - sa]

FDiv(fmt, a, b) ==
    LET ua == Unp(fmt, a)  ub == Unp(fmt, b)  s == Xor01(ua.s, ub.s)
    IN  IF ua.cls = "nan" \/ ub.cls = "nan" THEN RNaN(fmt)
        ELSE IF ua.cls = "inf" THEN (IF ub.cls = "inf" THEN RNaN(fmt) ELSE R(FInf(fmt, s)))
        ELSE IF ub.cls = "inf" THEN R(FZero(fmt, s))
        ELSE IF ub.cls = "zero" THEN (IF ua.cls = "zero" THEN RNaN(fmt) ELSE R(FInf(fmt, s)))
        ELSE IF ua.cls = "zero" THEN R(FZero(fmt, s))
        ELSE LET na == Norm(fmt, ua)  nb == Norm(fmt, ub)
                 num == ShlN(na.sig, fmt.mb + 3)
                 dm  == DivModU(num, nb.sig)
             IN  R(RoundPack(fmt, s, dm.q, na.q - (fmt.mb + 3) - nb.q, IF IsZero(dm.r) THEN 0 ELSE 1))

\* integer square root by the digit-by-digit method; k = current bit position (even)
RECURSIVE ISqrtR(_, _, _)
ISqrtR(n, res, k) ==
    IF k < 0 THEN [root |-> res, rem |-> n]
    ELSE LET bit == ShlN(One(Len(n)), k)
             t   == Add(res, bit)
         IN  IF LeU(t, n) THEN ISqrtR(Sub(n, t), Add(ShrN(res, 1), bit), k - 2)
                          ELSE ISqrtR(n, ShrN(res, 1), k - 2)

ISqrt(n) == LET bl == BitLen(n)
                k0 == IF bl = 0 THEN 0 ELSE ((bl - 1) \div 2) * 2
            IN  ISqrtR(n, Zero(Len(n)), k0)

FSqrt(fmt, a) ==
    LET ua == Unp(fmt, a)
    IN  IF ua.cls = "nan" THEN RNaN(fmt)
        ELSE IF ua.cls = "zero" THEN R(a)
        ELSE IF ua.s = 1 THEN RNaN(fmt)
        ELSE IF ua.cls = "inf" THEN R(a)
        ELSE LET na == Norm(fmt, ua)
                 s0 == fmt.mb + 4
                 sh == IF (na.q - s0) % 2 = 0 THEN s0 ELSE s0 + 1
                 rt == ISqrt(ShlN(na.sig, sh))
             IN  R(RoundPack(fmt, 0, rt.root, (na.q - sh) \div 2, IF IsZero(rt.rem) THEN 0 ELSE 1))

----------------------------------------------------------------------------
(* min / max *)

FMinMax(fmt, a, b, ismin) ==
    IF IsNaN(fmt, a) \/ IsNaN(fmt, b) THEN RNaN(fmt)
    ELSE IF BothZero(fmt, a, b) THEN
        LET sa == SignBit(a) sb == SignBit(b)
        IN  R(FZero(fmt, IF ismin THEN (IF sa + sb > 0 THEN 1 ELSE 0) ELSE sa * sb))
    ELSE IF ismin THEN R(IF FLtNN(fmt, a, b) THEN a ELSE b)
    ELSE R(IF FLtNN(fmt, a, b) THEN b ELSE a)

----------------------------------------------------------------------------
(* rounding to an integral value: ceil floor trunc nearest *)

FRoundInt(fmt, a, o) ==
    LET u == Unp(fmt, a)
    IN  IF u.cls = "nan" THEN RNaN(fmt)
        ELSE IF u.cls \in {"inf", "zero"} \/ u.q >= 0 THEN R(a)
        ELSE LET f  == 0 - u.q                              \* number of fraction bits
                 bs == Bits(u.sig)
                 I  == FromBits(ShrUBits(bs, f))
                 frac == AnyBit(bs, 1, f)
                 guard == IF f <= Len(bs) THEN bs[f] ELSE 0
                 rest  == AnyBit(bs, 1, f - 1)
                 lsb == I[1] % 2
                 inc == CASE o = "trunc"   -> FALSE
                          [] o = "floor"   -> u.s = 1 /\ frac = 1
                          [] o = "ceil"    -> u.s = 0 /\ frac = 1
                          [] o = "nearest" -> guard = 1 /\ (rest = 1 \/ lsb = 1)
                 J == IF inc THEN Add(I, One(Len(I))) ELSE I
             IN  R(RoundPack(fmt, u.s, J, 0, 0))

----------------------------------------------------------------------------
(* dispatch used by WasmNumeric *)

FUn(fmt, o, a) ==
    CASE o = "abs"  -> R(ClearSign(fmt, a))
      [] o = "neg"  -> R(WXor(a, SignMask(fmt)))
      [] o = "sqrt" -> FSqrt(fmt, a)
      [] OTHER      -> FRoundInt(fmt, a, o)

FBin(fmt, o, a, b) ==
    CASE o = "add" -> FAddSub(fmt, a, b, FALSE)
      [] o = "sub" -> FAddSub(fmt, a, b, TRUE)
      [] o = "mul" -> FMul(fmt, a, b)
      [] o = "div" -> FDiv(fmt, a, b)
      [] o = "min" -> FMinMax(fmt, a, b, TRUE)
      [] o = "max" -> FMinMax(fmt, a, b, FALSE)
      [] o = "copysign" -> R(WithSign(fmt, SignBit(b), ClearSign(fmt, a)))

----------------------------------------------------------------------------
(* conversions *)

\* f32 -> f64 (exact) and f64 -> f32 (one rounding); NaN -> some NaN
FConvert(from, to, a) ==
    LET u == Unp(from, a)
    IN  IF u.cls = "nan" THEN RNaN(to)
        ELSE IF u.cls = "inf" THEN R(FInf(to, u.s))
        ELSE IF u.cls = "zero" THEN R(FZero(to, u.s))
        ELSE R(RoundPack(to, u.s, ExtendU(Wrap(u.sig, MinI(Len(u.sig), WL(to))), WL(to)), u.q, 0))
FPromote(a) == FConvert(F32, F64, a)
FDemote(a)  == FConvert(F64, F32, a)

\* integer word (any width) -> float
FFromInt(fmt, w, signed) ==
    LET s   == IF signed THEN SignBit(w) ELSE 0
        mag == IF s = 1 THEN Neg(w) ELSE w
    IN  RoundPack(fmt, s, ExtendU(mag, WL(fmt)), 0, 0)

\* float -> integer of K limbs; returns [trap, b]
FToInt(fmt, a, K, signed, sat) ==
    LET u  == Unp(fmt, a)
        W  == K * LB
        lo == IF signed THEN MinS(K) ELSE Zero(K)
        hi == IF signed THEN MaxS(K) ELSE Ones(K)
    IN  IF u.cls = "nan" THEN [trap |-> IF sat THEN "" ELSE "InvalidConversion", b |-> Zero(K)]
        ELSE IF u.cls = "zero" THEN [trap |-> "", b |-> Zero(K)]
        ELSE
        LET n  == BitLen(u.sig)
            E  == u.q + n - 1
            \* |x| >= 2^W certainly overflows; below that the truncated magnitude fits W+1 bits
            big == u.cls = "inf" \/ E >= W
            I  == IF big THEN Zero(K + 1)
                  ELSE IF u.q >= 0 THEN Wrap(ShlN(ExtendU(u.sig, MaxI(Len(u.sig), K + 1)), u.q), K + 1)
                  ELSE Wrap(ExtendU(ShrN(u.sig, 0 - u.q), MaxI(Len(u.sig), K + 1)), K + 1)
            limit == IF signed THEN (IF u.s = 1 THEN ExtendU(MinS(K), K + 1) ELSE ExtendU(MaxS(K), K + 1))
                     ELSE (IF u.s = 1 THEN Zero(K + 1) ELSE ExtendU(Ones(K), K + 1))
            over == big \/ LtU(limit, I)
            val == IF u.s = 1 THEN Neg(Wrap(I, K)) ELSE Wrap(I, K)
        IN  IF over THEN [trap |-> IF sat THEN "" ELSE "IntOverflow", b |-> IF u.s = 1 THEN lo ELSE hi]
            ELSE [trap |-> "", b |-> val]
=============================================================================
