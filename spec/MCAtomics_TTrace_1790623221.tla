---- MODULE MCAtomics_TTrace_1790623221 ----
EXTENDS Sequences, TLCExt, Toolbox, MCAtomics, Naturals, TLC

_expression ==
    LET MCAtomics_TEExpression == INSTANCE MCAtomics_TEExpression
    IN MCAtomics_TEExpression!expression
----

_trace ==
    LET MCAtomics_TETrace == INSTANCE MCAtomics_TETrace
    IN MCAtomics_TETrace!trace
----

_inv ==
    ~(
        TLCGet("level") = Len(_TETrace)
        /\
        res = (<<<<>>, <<>>, <<0>>>>)
        /\
        pc = (<<"unlock", "ready", "ready">>)
        /\
        bad = (TRUE)
        /\
        tmp = (<<0, 0, 0>>)
        /\
        mutex = (1)
        /\
        idx = (<<1, 1, 2>>)
        /\
        cell = (1)
    )
----

_init ==
    /\ bad = _TETrace[1].bad
    /\ tmp = _TETrace[1].tmp
    /\ pc = _TETrace[1].pc
    /\ res = _TETrace[1].res
    /\ idx = _TETrace[1].idx
    /\ mutex = _TETrace[1].mutex
    /\ cell = _TETrace[1].cell
----

_next ==
    /\ \E i,j \in DOMAIN _TETrace:
        /\ \/ /\ j = i + 1
              /\ i = TLCGet("level")
        /\ bad  = _TETrace[i].bad
        /\ bad' = _TETrace[j].bad
        /\ tmp  = _TETrace[i].tmp
        /\ tmp' = _TETrace[j].tmp
        /\ pc  = _TETrace[i].pc
        /\ pc' = _TETrace[j].pc
        /\ res  = _TETrace[i].res
        /\ res' = _TETrace[j].res
        /\ idx  = _TETrace[i].idx
        /\ idx' = _TETrace[j].idx
        /\ mutex  = _TETrace[i].mutex
        /\ mutex' = _TETrace[j].mutex
        /\ cell  = _TETrace[i].cell
        /\ cell' = _TETrace[j].cell

\* Uncomment the ASSUME below to write the states of the error trace
\* to the given file in Json format. Note that you can pass any tuple
\* to `JsonSerialize`. For example, a sub-sequence of _TETrace.
    \* ASSUME
    \*     LET J == INSTANCE Json
    \*         IN J!JsonSerialize("MCAtomics_TTrace_1790623221.json", _TETrace)

=============================================================================

 Note that you can extract this module `MCAtomics_TEExpression`
  to a dedicated file to reuse `expression` (the module in the 
  dedicated `MCAtomics_TEExpression.tla` file takes precedence 
  over the module `MCAtomics_TEExpression` below).

---- MODULE MCAtomics_TEExpression ----
EXTENDS Sequences, TLCExt, Toolbox, MCAtomics, Naturals, TLC

expression == 
    [
        \* To hide variables of the `MCAtomics` spec from the error trace,
        \* remove the variables below.  The trace will be written in the order
        \* of the fields of this record.
        bad |-> bad
        ,tmp |-> tmp
        ,pc |-> pc
        ,res |-> res
        ,idx |-> idx
        ,mutex |-> mutex
        ,cell |-> cell
        
        \* Put additional constant-, state-, and action-level expressions here:
        \* ,_stateNumber |-> _TEPosition
        \* ,_badUnchanged |-> bad = bad'
        
        \* Format the `bad` variable as Json value.
        \* ,_badJson |->
        \*     LET J == INSTANCE Json
        \*     IN J!ToJson(bad)
        
        \* Lastly, you may build expressions over arbitrary sets of states by
        \* leveraging the _TETrace operator.  For example, this is how to
        \* count the number of times a spec variable changed up to the current
        \* state in the trace.
        \* ,_badModCount |->
        \*     LET F[s \in DOMAIN _TETrace] ==
        \*         IF s = 1 THEN 0
        \*         ELSE IF _TETrace[s].bad # _TETrace[s-1].bad
        \*             THEN 1 + F[s-1] ELSE F[s-1]
        \*     IN F[_TEPosition - 1]
    ]

=============================================================================



Parsing and semantic processing can take forever if the trace below is long.
 In this case, it is advised to uncomment the module below to deserialize the
 trace from a generated binary file.

\*
\*---- MODULE MCAtomics_TETrace ----
\*EXTENDS IOUtils, MCAtomics, TLC
\*
\*trace == IODeserialize("MCAtomics_TTrace_1790623221.bin", TRUE)
\*
\*=============================================================================
\*

---- MODULE MCAtomics_TETrace ----
EXTENDS MCAtomics, TLC

trace == 
    <<
    ([res |-> <<<<>>, <<>>, <<>>>>,pc |-> <<"ready", "ready", "ready">>,bad |-> FALSE,tmp |-> <<0, 0, 0>>,mutex |-> 0,idx |-> <<1, 1, 1>>,cell |-> 0]),
    ([res |-> <<<<>>, <<>>, <<>>>>,pc |-> <<"read", "ready", "ready">>,bad |-> FALSE,tmp |-> <<0, 0, 0>>,mutex |-> 1,idx |-> <<1, 1, 1>>,cell |-> 0]),
    ([res |-> <<<<>>, <<>>, <<>>>>,pc |-> <<"write", "ready", "ready">>,bad |-> FALSE,tmp |-> <<0, 0, 0>>,mutex |-> 1,idx |-> <<1, 1, 1>>,cell |-> 0]),
    ([res |-> <<<<>>, <<>>, <<0>>>>,pc |-> <<"write", "ready", "ready">>,bad |-> FALSE,tmp |-> <<0, 0, 0>>,mutex |-> 1,idx |-> <<1, 1, 2>>,cell |-> 16]),
    ([res |-> <<<<>>, <<>>, <<0>>>>,pc |-> <<"unlock", "ready", "ready">>,bad |-> TRUE,tmp |-> <<0, 0, 0>>,mutex |-> 1,idx |-> <<1, 1, 2>>,cell |-> 1])
    >>
----


=============================================================================

---- CONFIG MCAtomics_TTrace_1790623221 ----
CONSTANTS
    Threads <- Threads3
    Prog <- Prog3
    Variant = "BEMutex"

INVARIANT
    _inv

CHECK_DEADLOCK
    \* CHECK_DEADLOCK off because of PROPERTY or INVARIANT above.
    FALSE

INIT
    _init

NEXT
    _next

CONSTANT
    _TETrace <- _trace

ALIAS
    _expression
=============================================================================
\* Generated on Mon Sep 28 19:20:22 UTC 2026