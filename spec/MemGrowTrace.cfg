CONSTANTS Threads = {1, 2, 3, 4}
 MaxPages = 4
 InitPages = 1
INIT TInit
NEXT TNext
CONSTRAINT Progress
INVARIANT Bounded
INVARIANT FreshZero
POSTCONDITION Reached
CHECK_DEADLOCK FALSE
