------------------------------ MODULE WasiProc ------------------------------
(***************************************************************************)
(* C15: process services of the WASI host.                                 *)
(*                                                                         *)
(* Layout(vec, ptrs, buf): what args_get / environ_get must leave in guest *)
(* memory for a vector of byte strings: the i-th pointer (u32 at           *)
(* ptrs + 4(i-1)) is the address of the i-th string, strings are laid out  *)
(* back to back from buf, each followed by one NUL; Sizes(vec) is what the *)
(* *_sizes_get calls report: the count and the total Sum(len + 1).         *)
(*                                                                         *)
(* Judge(o): recorded observations of clocks, randomness, exit and thread  *)
(* spawning against what the specification allows:                         *)
(*   clock  : unknown id -> EINVAL and nothing written; otherwise the      *)
(*            value lies between the driver's own readings taken before    *)
(*            and after, and a monotonic reading is never below the        *)
(*            previous one of the same process (o.prev)                    *)
(*   random : success, nothing outside [ptr, ptr+len) changed, and no run  *)
(*            of >= 16 bytes survived two fills with different patterns    *)
(*   exit   : the process ended with status code mod 256 and the call did  *)
(*            not return                                                   *)
(*   spawn  : see ThreadSpawn.tla for the protocol; here the history of    *)
(*            one run: distinct positive ids, one start per spawn with the *)
(*            spawn's argument, on an instance sharing the parent's memory *)
(***************************************************************************)
EXTENDS Naturals, Integers, Sequences, FiniteSets, TLC, Json, IOUtils

RECURSIVE SumLens(_)
SumLens(v) == IF v = <<>> THEN 0 ELSE Len(Head(v)) + 1 + SumLens(Tail(v))
Sizes(vec) == [count |-> Len(vec), total |-> SumLens(vec)]
RECURSIVE Starts(_, _)
Starts(vec, at) == IF vec = <<>> THEN <<>> ELSE <<at>> \o Starts(Tail(vec), at + Len(Head(vec)) + 1)
RECURSIVE Flat(_)
Flat(vec) == IF vec = <<>> THEN <<>> ELSE Head(vec) \o <<0>> \o Flat(Tail(vec))
\* expected writes: [ptrs |-> <<addresses>>, bytes |-> the string area]
Layout(vec, buf) == [ptrs |-> Starts(vec, buf), bytes |-> Flat(vec)]
\* the regions are disjoint and inside what the sizes call announced
LayoutOK(vec, buf) ==
    LET L == Layout(vec, buf) IN
    /\ Len(L.bytes) = Sizes(vec).total /\ Len(L.ptrs) = Sizes(vec).count
    /\ \A i \in 1..Len(vec) : L.ptrs[i] >= buf /\ L.ptrs[i] + Len(vec[i]) + 1 <= buf + Sizes(vec).total
    /\ \A i \in 1..(Len(vec) - 1) : L.ptrs[i] + Len(vec[i]) + 1 = L.ptrs[i + 1]
    /\ \A i \in 1..Len(vec) : L.bytes[L.ptrs[i] - buf + Len(vec[i]) + 1] = 0

In == ndJsonDeserialize(IOEnv.INFILE)
LeT(a, b) == a[1] < b[1] \/ (a[1] = b[1] /\ a[2] <= b[2])          \* <<seconds, nanoseconds>>
JudgeClock(o) ==
    IF o.id \notin {0, 1, 2, 3} THEN o.errno = 28 /\ ~o.wrote
    ELSE /\ o.errno = 0 /\ o.wrote
         \* the value lies between two readings of the SAME clock taken by the calling thread around the call
         \* (0 realtime, 1 monotonic, 2 CPU time of the process, 3 CPU time of the calling thread)
         /\ LeT(o.before, o.t) /\ LeT(o.t, o.after)
         /\ (o.id = 1 => LeT(o.prev, o.t))
\* readings taken directly one after the other, whatever precisions were asked for: all succeed, and the monotonic
\* clock (1) does not step back
JudgeClockSeq(o) == /\ o.errno = 0
                    /\ (o.id = 1 => \A i \in 1..(Len(o.ts) - 1) : LeT(o.ts[i], o.ts[i + 1]))
\* clock_res_get: the host's resolution of the same clock as 64-bit nanoseconds, nothing else written
JudgeClockRes(o) ==
    IF o.id \notin {0, 1, 2, 3} THEN o.errno = 28 /\ ~o.wrote
    ELSE o.errno = 0 /\ o.wrote /\ o.t = o.before /\ o.outside = 0
JudgeRandom(o) == /\ o.errno = 0 /\ o.outside = 0
                  /\ (o.len >= 16 => (o.run1 < 16 \/ o.run2 < 16))
                  /\ (o.len > 0 /\ o.len < 16 => TRUE)
JudgeExit(o) == ~o.returned /\ o.status = o.code % 256
\* thread-spawn: every spawn names the module it was issued from (mod) and whether that module exports wasi_thread_start
\* (hasStart); a start record names the module whose start function ran (mod), with which identifier and argument
JudgeSpawn(o) ==
    LET ok == {i \in 1..Len(o.spawns) : o.spawns[i].hasStart} IN
    /\ \A i \in 1..Len(o.spawns) : IF i \in ok THEN ~o.spawns[i].neg /\ o.spawns[i].tid > 0 ELSE o.spawns[i].neg
    /\ \A i, j \in ok : i # j => o.spawns[i].tid # o.spawns[j].tid
    /\ Len(o.starts) = Cardinality(ok)
    /\ \A i \in ok : Cardinality({j \in 1..Len(o.starts) : /\ o.starts[j].tid = o.spawns[i].tid /\ o.starts[j].arg = o.spawns[i].arg
                                                             /\ o.starts[j].mod = o.spawns[i].mod}) = 1
    /\ \A j \in 1..Len(o.starts) : o.starts[j].shared /\ ~o.starts[j].parentinstance
    /\ o.cell = Cardinality(ok)
VARIABLE k
Init == k = 0 /\ TLCSet(1, <<>>)
Next == k < Len(In) /\ k' = k + 1
Judge == (k >= 1) =>
    LET o == In[k]
        ok == CASE o.kind = "layout" -> LayoutOK(o.vec, o.buf)
                [] o.kind = "clock" -> JudgeClock(o)
                [] o.kind = "clockseq" -> JudgeClockSeq(o)
                [] o.kind = "clockres" -> JudgeClockRes(o)
                [] o.kind = "random" -> JudgeRandom(o)
                [] o.kind = "exit" -> JudgeExit(o)
                [] o.kind = "spawn" -> JudgeSpawn(o)
                [] OTHER -> TRUE
    IN  ok \/ TLCSet(1, Append(TLCGet(1), k))
Out == TLCGet("level") >= 0 /\ ndJsonSerialize(IOEnv.OUTFILE,
          <<[bad |-> TLCGet(1),
             layouts |-> [j \in 1..Len(In) |-> IF In[j].kind = "layout" THEN [s |-> Sizes(In[j].vec), l |-> Layout(In[j].vec, In[j].buf)] ELSE [s |-> 0, l |-> 0]]]>>)
=============================================================================
