---------------------------- MODULE MemGrowTrace ----------------------------
(* code -> spec: API histories of the real wasmMemoryGrow / memory.size on a shared   *)
(* memory (run under bind/c/sched.c) validated against MemGrowData (= MemGrowAbs + contents).  Each execution     *)
(* ends with a "final" event carrying the page count the descriptor holds afterwards.  *)
EXTENDS MemGrowData, TLC, Json, IOUtils
History == ndJsonDeserialize(IOEnv.TRACE)
VARIABLE l
TInit == DInit /\ l = 1 /\ TLCSet(2, 0)
Ev == History[l]
Consume(e) == l <= Len(History) /\ Ev.ev = e /\ l' = l + 1
TCall == Consume("call") /\ DCall(Ev.t, Ev.op, Ev.d, Ev.v)
TRet == Consume("ret") /\ DRet(Ev.t, Ev.res)
TFinal == /\ Consume("final")
          /\ \A t \in Threads : gs[t].st = "idle"
          /\ pages = Ev.pages                       \* final size = initial + sum of successful deltas
          /\ pages' = InitPages /\ gs' = [t \in Threads |-> GIdle] /\ cells' = [p \in 0..(MaxPages - 1) |-> 0]
TInternal == DInternal /\ l <= Len(History) /\ UNCHANGED l
TNext == TCall \/ TRet \/ TFinal \/ TInternal
Progress == TLCSet(2, IF l > TLCGet(2) THEN l ELSE TLCGet(2))
Reached == TLCGet("level") >= 0 /\ ndJsonSerialize(IOEnv.OUTFILE, <<[reached |-> TLCGet(2), total |-> Len(History)]>>)
=============================================================================
