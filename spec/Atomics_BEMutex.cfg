CONSTANTS Threads <- Threads3
 Prog <- Prog3
 Variant = "BEMutex"
SPECIFICATION Spec
INVARIANT AtomicRMW
CHECK_DEADLOCK FALSE
